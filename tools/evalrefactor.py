#!/venv/bin/python
"""Run ALL 18 quick checks against a property-preserving refactoring written by a sub-agent
(false-alarm hunting).  usage: tools/evalrefactor.py <worktree> <k> <tag>
Expectation: every check exits 0.  Results are kept under /verif/refactors/<tag>_<k>/."""
import json, os, shutil, subprocess, sys, time
PY = '/venv/bin/python'
VERIF = os.path.dirname(os.path.dirname(os.path.abspath(__file__)))
ALL = ['C%02d' % i for i in range(1, 19)]

def sh(cmd, cwd, env=None, timeout=3600):
    e = dict(os.environ); e.update(env or {})
    r = subprocess.run(cmd, cwd=cwd, env=e, capture_output=True, text=True, timeout=timeout)
    return r.returncode, r.stdout + r.stderr

def main():
    wt, k, tag = sys.argv[1], sys.argv[2], sys.argv[3]
    props = sys.argv[4:] or ALL
    ro = os.path.join(wt, 'refactor_out')
    patch, notes = os.path.join(ro, 'patch_%s.diff' % k), os.path.join(ro, 'notes_%s.md' % k)
    sh(['git', 'checkout', '--', '.'], wt); sh(['git', 'clean', '-fdq', '-e', 'refactor_out', '-e', 'seeded_out'], wt)
    c, out = sh(['git', 'apply', patch], wt)
    if c != 0:
        print('patch does not apply', out[-300:]); return 2
    res = {'tag': tag, 'k': k, 'checks': {}}
    try:
        c, out = sh([PY, '-m', 'pytest', '-q', '-p', 'no:cacheprovider'], wt, {'PYTHONPATH': wt, 'PYTHONDONTWRITEBYTECODE': '1'})
        res['tests'] = out.strip().split('\n')[-1]
        c, out = sh(['git', 'diff', '--stat'], wt)
        res['diffstat'] = out.strip().split('\n')[-1]
        for p in props:
            t0 = time.time()
            c, out = sh([PY, '-B', '-m', 'rv.runner', p, '--tier', 'quick'], VERIF, {'VERIF_REPO': wt})
            first = [l.strip() for l in out.split('\n') if l.startswith('  [')]
            inc = [l for l in out.split('\n') if l.startswith('INCONCLUSIVE')]
            res['checks'][p] = {'exit': c, 'first_finding': first[0][:400] if first else (inc[0][:400] if inc else ''), 'secs': round(time.time() - t0)}
            print(p, c, res['checks'][p]['first_finding'][:200]); sys.stdout.flush()
    finally:
        sh(['git', 'checkout', '--', '.'], wt); sh(['git', 'clean', '-fdq', '-e', 'refactor_out', '-e', 'seeded_out'], wt)
    d = os.path.join(VERIF, 'refactors', '%s_%s' % (tag, k))
    os.makedirs(d, exist_ok=True)
    shutil.copy(patch, os.path.join(d, 'patch.diff'))
    if os.path.exists(notes):
        shutil.copy(notes, os.path.join(d, 'notes.md'))
    res['all_silent'] = all(v['exit'] == 0 for v in res['checks'].values())
    json.dump(res, open(os.path.join(d, 'meta.json'), 'w'), indent=1)
    print('ALL SILENT' if res['all_silent'] else 'ALARMS: %s' % [p for p, v in res['checks'].items() if v['exit'] != 0], res['tests'], res['diffstat'])

sys.exit(main())
