"""C06 - Model.check_stability answers True exactly for matchings without a
blocking pair, and always returns a bool."""
import random

from . import lpcommon as lc
from .. import engine as en
from .. import refmodel as rm
from .. import spec as sp

ID = 'C06'
ANCHOR_FILES = ['solver/model.py']
LEVEL = 'exploration'
NEEDS_DEPS = True
EVAL_COUNTER = 'assignments_presented'
RULE = ('two-sided specs (HR/SM-shaped and SPA; ties on both sides; zero-capacity projects and lecturers; lecturers without '
        'assignee) are loaded through the real file reader; EVERY assignment of students to acceptable projects that respects '
        'project and lecturer upper quotas (all of them when <=600, else 300 sampled) is presented to the real '
        'Model.check_stability; an icontract postcondition on that method compares each answer with the reference blocking-pair '
        'test recomputed from the Model\'s documented attributes, the driver compares it with the reference computed from the '
        'spec, and exceptions / non-bool results are violations; one case in five is a full -stab LP run whose '
        '"stability_correct:" line must read True; non-trivial = distinct (instance, assignment) presented; evaluations = '
        'assignments presented')
ASSUMPTIONS = ['SPA-STL blocking-pair definition as worded in C05/C06 (undefined worst assignee => clause false)']
SHAPES = ['dense', 'dense', 'zero_caps', 'zero_caps', 'tight_lecturer', 'one_lecturer', 'all_tied', 'no_ties', 'long_lists', 'wide', 'tall']


def plan(tier):
    return {'cases_per_shard': 2000 if tier == 'quick' else 40000,
            'time_cap_s': 90 if tier == 'quick' else 560}


def run_case(cs, ctx):
    lc.contracts_on(ctx)
    rng = random.Random(cs)
    case = {'cs': cs}
    if cs % 5 == 0:
        prof = {'name': 'c06lp', 'spec': {'shapes': SHAPES}, 'opts': {'twopl': True, 'stab': True, 'ncrit_choices': [0, 1, 2]}}
        r = lc.lp_case(cs, ctx, prof)
        lc.harvest_contracts(ctx, r['case'])
        ctx.cnt('stab_lp_runs')
        return
    from matchingproblems.solver import Solver
    medium = rng.random() < 0.15
    spec = sp.make_spec(rng, shape=rng.choice(SHAPES), **(dict(max_s=6, max_p=4, max_l=3, min_s=4) if medium else {}))
    if cs % 40 == 3:
        spec = sp.make_big_spec(rng)          # two-digit ids on both sides
        ctx.cov('big_two_digit_ids_both_sides')
    elif cs % 40 == 7:
        spec = sp.make_huge_id_spec(rng)      # three-digit project and lecturer ids
        ctx.cov('three_digit_ids')
    elif cs % 400 == 11:
        spec = sp.make_long_rank_spec(rng)    # more than 1000 distinct ranks in one list
        ctx.cov('more_than_1000_ranks')
    text = sp.render(spec, rng=rng, second_side=True, noise=True)
    path = en.write_file(ctx.workdir, text)
    case.update({'spec': spec, 'file': text})
    presolved = cs % 6 == 1 and spec.get('shape') not in ('huge_ids', 'long_ranks', 'big')
    try:
        if presolved:
            # the same checker after the Model went through a solve with closures and stability constraints
            s = Solver(['-f', path, '-na', str(spec['na']), '-twopl', '-pc', '-stab'] + rng.choice([[], ['-maxsize', '1'], ['-minsize', '1']]))
            try:
                s.solve()
                s.get_results()
                ctx.cnt('models_presolved_with_pc_and_stab')
            except Exception:
                ctx.cnt('unobservable_presolve_failed')
        else:
            s = Solver(['-f', path, '-na', str(spec['na']), '-twopl'])
    except BaseException as e:
        ctx.cnt('unobservable_reader_failed')
        return
    model = s.model
    inst = rm.Inst(spec, True)
    if inst.n_acceptable_assignments() > 200000:
        # too many to enumerate: draw random quota-respecting assignments directly
        ms = set()
        for _ in range(400):
            pcnt, lcnt, m = [0] * inst.np, [0] * inst.nl, []
            for s_ in range(inst.ns):
                opts_ = [p for p, _r in inst.acc[s_] if pcnt[p - 1] < inst.puq[p - 1] and lcnt[inst.plec[p - 1] - 1] < inst.luq[inst.plec[p - 1] - 1]]
                p = rng.choice(opts_ + [0]) if opts_ and rng.random() < 0.85 else 0
                if p:
                    pcnt[p - 1] += 1
                    lcnt[inst.plec[p - 1] - 1] += 1
                m.append(p)
            ms.add(tuple(m))
        ms = sorted(ms)
    else:
        ms = rm.enumerate_assignments(inst)
        if len(ms) > 600:
            ms = rng.sample(ms, 300)
    nT = nF = 0
    for m in ms:
        lst = []
        ok = True
        for i, p in enumerate(m):
            if not p:
                lst.append(None)
                continue
            pr = [x for x in model.pairs[i] if x.projectID == p]
            if len(pr) != 1:
                ok = False
                break
            lst.append(pr[0])
        if not ok:
            ctx.cnt('unobservable_model_differs_from_spec')
            continue
        ctx.cnt('assignments_presented')
        cover = {}
        bps = rm.blocking_pairs(inst, m, cover=cover)
        for k, v in cover.items():
            ctx.cov(k, v)
        exp = not bps
        try:
            got = model.check_stability(lst)
        except Exception as e:
            ctx.finding(en.F('C06', 'always_returns_bool', 'check_stability(%s) raised %s: %s' % (list(m), type(e).__name__, e),
                             matching=list(m), exc=en.exc_info(e)), case)
            continue
        if type(got) is not bool:
            ctx.finding(en.F('C06', 'always_returns_bool', 'check_stability(%s) returned %r' % (list(m), got), matching=list(m)), case)
        elif got != exp:
            ctx.finding(en.F('C06', 'answer_vs_reference', 'check_stability(%s) = %s; reference from the spec: %s' % (
                list(m), got, 'no blocking pair' if exp else 'blocked by %s' % (bps[0],)), matching=list(m)), case)
        if exp:
            nT += 1
        else:
            nF += 1
        ctx.nontrivial(sp.shash([spec['st'], spec['puq'], spec['plec'], spec['luq'], spec['lec'], list(m)]))
    ctx.cov('verdict_True', nT)
    ctx.cov('verdict_False', nF)
    if any(u == 0 for u in inst.puq):
        ctx.cov('instances_with_zero_capacity_project')
    if any(u == 0 for u in inst.luq):
        ctx.cov('instances_with_zero_capacity_lecturer')
    lc.harvest_contracts(ctx, case)
    ctx.sample({'file': text, 'assignments_presented': len(ms), 'stable': nT, 'blocked': nF}, cap=2)


def replay(w, ctx):
    run_case(w['case']['cs'], ctx)


def floors(m, tier):
    out = []
    c = m['counters']
    need = 150000 if tier == 'quick' else 2000000
    if c.get('assignments_presented', 0) < need:
        out.append('only %d assignments presented (< %d)' % (c.get('assignments_presented', 0), need))
    if c.get('contract_evals_check_stability_in_domain', 0) < need:
        out.append('contract on Model.check_stability evaluated only %d times in its domain' % c.get('contract_evals_check_stability_in_domain', 0))
    if c.get('contract_evals_contract_errors', 0):
        out.append('%d internal contract errors' % c['contract_evals_contract_errors'])
    for k in ('big_two_digit_ids_both_sides', 'three_digit_ids', 'verdict_True', 'verdict_False', 'instances_with_zero_capacity_project', 'instances_with_zero_capacity_lecturer',
              '3a', '3b_in_Ml', '3b_pref', '3c', '3b_tie_not_strict', '3c_tie_not_strict', '3b_no_worst', '3c_no_worst'):
        if m['cover'].get(k, 0) == 0:
            out.append('class %s never observed' % k)
    if c.get('c06_stability_correct_lines', 0) < (1000 if tier == 'quick' else 20000):
        out.append('only %d stability_correct lines observed' % c.get('c06_stability_correct_lines', 0))
    return out
