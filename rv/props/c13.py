"""C13 - ties written by the generator are read back as the same ties."""
import itertools
import random

from . import lpcommon as lc
from .. import engine as en
from .. import outparse as op

ID = 'C13'
ANCHOR_FILES = ['generator/generator_shared.py', 'solver/fileIO.py']
LEVEL = 'exploration'
NEEDS_DEPS = True
EXHAUSTIVE = True
EVAL_COUNTER = 'reader_executions'
RULE = ('driven exhaustively: every list length n = 0..N (N = 10 quick, 13 thorough) x all 2^n "tied with the next entry" '
        'vectors, passed to the real create_string_pref as Python lists and as numpy arrays (what the generator uses) under an '
        'icontract postcondition (balanced non-nested parentheses, no group of one, groups = maximal runs of 1-decisions, last '
        'decision without effect, order kept); the emitted text is embedded (a) as a first-side list and (b) as a second-side '
        'list in (c) a 2-agent and (d) a 3-agent file and loaded with the real Solver: adjacent entries share a rank exactly when '
        'tied, ranks start at 1 and grow by one per group; second workload: real Generator runs (sparse shapes included) with taps '
        'on the two list-producing functions - every line of every written file must carry exactly the groups that the recorded '
        '(list, tie decisions) imply, empty lists included, and the solver must read the first-side lists back with the implied ranks; non-trivial = vector with at least one 1 among the first n-1 '
        'decisions; distinct = distinct (n, vector); evaluations = reader executions')
ASSUMPTIONS = ['the entry ids of the list are a random permutation of 1..n, or of 258..257+n for one vector in nine (ids do not influence parenthesisation)']


def plan(tier):
    return {'cases_per_shard': 1, 'time_cap_s': 120 if tier == 'quick' else 560}


def exp_ranks(t, n):
    r, out = 1, []
    for i in range(n):
        out.append(r)
        if i < n - 1 and not t[i]:
            r += 1
    return out


def embed(kind, na, toks, n, off=0):
    """Build a file whose first-side (kind 'first') or second-side list is *toks*.  With off > 0 the listed
    projects (first side) are numbered off+1.., and the hospital / lecturer that owns the second-side list has
    number off+1 / off+2 (three-digit ids, beyond the interpreter's cache of small integers)."""
    txt = ' '.join(toks)
    if off and kind == 'second':
        ns = n
        if na == 2:
            lines = ['%d %d' % (ns, off + 1)] + ['%d: %d' % (s + 1, off + 1) for s in range(ns)]
            lines += ['%d: 0: 1: ' % (j + 1) for j in range(off)]
            lines.append('%d: 0: %d: %s' % (off + 1, n, txt))
        else:
            lines = ['%d 2 %d' % (ns, off + 2)] + ['%d: 1' % (s + 1) for s in range(ns)]
            lines.append('1: 0: %d: %d' % (n, off + 2))
            lines.append('2: 0: 1: 1')
            lines += ['%d: 0: 1: 1: ' % (j + 1) for j in range(off + 1)]
            lines.append('%d: 0: %d: %d: %s' % (off + 2, n, n, txt))
        return '\n'.join(lines) + '\n'
    if kind == 'first':
        ns, np_ = 1, off + max(n, 1)
        head = '%d %d' % (ns, np_) if na == 2 else '%d %d 1' % (ns, np_)
        lines = [head, '1: ' + txt]
        for j in range(np_):
            if na == 2:
                lines.append('%d: 0: 1: %s' % (j + 1, '1' if str(j + 1) in [x.strip('()') for x in toks] else ''))
            else:
                lines.append('%d: 0: 1: 1' % (j + 1))
        if na == 3:
            lines.append('1: 0: 1: 1: ' + ('1' if n else ''))
    else:
        ns, np_ = n, 1
        head = '%d %d' % (ns, np_) if na == 2 else '%d %d 1' % (ns, np_)
        lines = [head] + ['%d: 1' % (s + 1) for s in range(ns)]
        if na == 2:
            lines.append('1: 0: %d: %s' % (n, txt))
        else:
            # two projects, two lecturers, project 1 supervised by lecturer 2 (not the identity map)
            head = '%d 2 2' % ns
            lines[0] = head
            lines.append('1: 0: %d: 2' % n)
            lines.append('2: 0: 1: 1')
            lines.append('1: 0: 1: 1: ')
            lines.append('2: 0: %d: %d: %s' % (n, n, txt))
    return '\n'.join(lines) + '\n'


def run_shard(ctx):
    import numpy as np
    lc.contracts_on(ctx)
    import matchingproblems.generator.generator_shared as gs
    from matchingproblems.solver import Solver
    N = 10 if ctx.tier == 'quick' else 13
    idx = 0
    rng = random.Random(ctx.seed + 13)
    for n in range(0, N + 1):
        for t in itertools.product([0, 1], repeat=n):
            idx += 1
            if idx % ctx.nshards != ctx.shard:
                continue
            off = 257 if (idx % 9 == 4 and n >= 1) else 0
            ids = list(range(off + 1, off + n + 1))
            random.Random(idx * 7919 + ctx.seed).shuffle(ids)
            case = {'n': n, 'ties': list(t), 'ids': ids, 'id_offset': off}
            if off:
                ctx.cnt('vectors_with_three_digit_ids')
            ctx.cnt('vectors')
            if any(t[:-1]):
                ctx.nontrivial('%d/%s' % (n, ''.join(map(str, t))))
            outs = []
            for form in ('list', 'numpy'):
                try:
                    if form == 'list':
                        toks = gs.create_string_pref(list(ids), list(t))
                    else:
                        toks = gs.create_string_pref(np.array(ids, dtype=int), np.array(t, dtype=int))
                    ctx.cnt('writer_calls')
                    outs.append(list(toks))
                except Exception as e:
                    ctx.finding(en.F('C13', 'writer_returns', 'create_string_pref(%s, %s) as %s raised %s: %s' % (
                        ids, list(t), form, type(e).__name__, e)), case)
            lc.harvest_contracts(ctx, case)
            if len(outs) == 2 and outs[0] != outs[1]:
                ctx.finding(en.F('C13', 'writer_list_vs_numpy', 'list input gives %s, numpy input gives %s' % (outs[0], outs[1])), case)
            if not outs:
                continue
            toks = [str(x) for x in outs[-1]]
            want = exp_ranks(t, n)
            for kind in ('first', 'second'):
                if kind == 'second' and n == 0:
                    continue
                for na in (2, 3):
                    text = embed(kind, na, toks if (kind == 'first' or not off) else [
                        ('(' if x.startswith('(') else '') + str(int(x.strip('()')) - off) + (')' if x.endswith(')') else '')
                        for x in toks], n, off)
                    path = en.write_file(ctx.workdir, text)
                    argv = ['-f', path, '-na', str(na), '-twopl']
                    if idx % 23 == 5:
                        # a read that is ABORTED inside a tie (ill-formed entry) comes first; whatever it leaves
                        # behind must not show in the next, well-formed read
                        bad = en.write_file(ctx.workdir, '2 3\n1: (1 2, 3)\n2: 1\n1: 0: 1: 1 2\n2: 0: 1: 1\n3: 0: 1: 1\n', 'illformed.txt', plain=True)
                        try:
                            Solver(['-f', bad, '-na', '2', '-twopl'])
                        except BaseException:
                            ctx.cnt('aborted_reads_of_an_ill_formed_file_before_a_read')
                    ctx.cnt('reader_executions')
                    ctx.cov('%s_side_%d_agent' % (kind, na))
                    c2 = dict(case, file=text, kind=kind, na=na)
                    try:
                        s = Solver(argv)
                    except BaseException as e:
                        ctx.finding(en.F('C13', 'reader_accepts', 'the solver cannot read the text %r (%s-side list, -na %d): %s: %s' % (
                            ' '.join(toks), kind, na, type(e).__name__, e)), c2)
                        continue
                    m = s.model
                    if kind == 'first':
                        got_ids = [p.projectID for p in m.pairs[0]]
                        got = [getattr(p, 'rank_student', 'no rank_student attribute') for p in m.pairs[0]]
                    else:
                        by = {p.studentID + off: getattr(p, 'rank_lecturer', 'no rank_lecturer attribute') for row in m.pairs for p in row}
                        got_ids = ids
                        got = [by.get(i) for i in ids]
                    if got_ids != ids or got != want:
                        ctx.finding(en.F('C13', 'ranks_read_back', 'text %r (%s-side, -na %d): entries %s read with ranks %s, '
                                         'the tie decisions %s imply %s' % (' '.join(toks), kind, na, got_ids, got, list(t), want)), c2)
            if idx % 500 == 0:
                ctx.sample({'n': n, 'ties': list(t), 'ids': ids, 'text': ' '.join(toks), 'expected_ranks': want}, cap=2)
    lc.harvest_contracts(ctx, {})
    generator_text_workload(ctx)
    lc.harvest_contracts(ctx, {})


def groups_from(pref, ties):
    n = len(pref)
    out, cur = [], [int(pref[0])] if n else []
    for i in range(1, n):
        if ties[i - 1]:
            cur.append(int(pref[i]))
        else:
            out.append(cur)
            cur = [int(pref[i])]
    if n:
        out.append(cur)
    return out


def generator_text_workload(ctx):
    """The text the generator really writes: taps on the two list-producing
    functions record every (list, tie decisions) pair of a run; each line of each
    written file must carry exactly the groups those decisions imply (also for
    empty lists), and the solver must read them back with the implied ranks."""
    import os
    import sys as _sys
    from .. import genengine as ge
    from .. import contracts
    import matchingproblems.generator.generator_shared as gs
    from matchingproblems.solver import Solver
    rec = []

    def wrap(name):
        orig = getattr(gs, name)
        if getattr(orig, '_rv_wrapped', False):
            return

        def w(*a, **k):
            r = orig(*a, **k)
            rec.append((name, [[int(x) for x in l] for l in r[0]], [[int(x) for x in t] for t in r[1]]))
            return r
        w._rv_wrapped = True
        w._rv_rec = rec
        setattr(gs, name, w)
        contracts._rebind(orig, w)
    if not all(hasattr(gs, nm) for nm in ('create_pref_lists_original', 'create_pref_lists_from_other_lists')):
        ctx.cnt('generator_text_workload_absent_list_functions_not_found')
        return
    for nm in ('create_pref_lists_original', 'create_pref_lists_from_other_lists'):
        wrap(nm)
        f = getattr(gs, nm)
        if getattr(f, '_rv_rec', None) is not rec:
            rec = f._rv_rec
    rng = random.Random(ctx.seed * 31 + ctx.shard)
    nruns = 40 if ctx.tier == 'quick' else 600
    for q in range(nruns):
        mp = rng.choice(['hr', 'sm', 'spa', 'ha'])
        big = rng.random() < 0.3
        v = ge.legal_vector(rng, mp=mp, max_n1=13 if big else 8, max_n2=13 if big else 10, max_n3=12 if big else 6)
        if big and mp != 'sm':
            v['n1'] = rng.randint(10, 13)
            v['n2'] = rng.randint(11, 13)
            v['uq'] = v['n2'] + rng.randint(0, 4)
            v.pop('lq', None)
            v['pmin'] = rng.randint(1, 3)
            v['pmax'] = rng.randint(v['pmin'], 6)
            if mp == 'spa':
                v['n3'] = rng.choice([11, 12, 3])
                v['luq'] = max(v.get('luq', 1), v['n3'])
                v.pop('lt', None)
                v.pop('llq', None)
        elif big:
            v['n1'] = rng.randint(11, 13)
            v['pmin'] = rng.randint(1, 3)
            v['pmax'] = rng.randint(v['pmin'], 6)
        if rng.random() < 0.5 and mp in ('hr', 'spa'):
            v['n1'] = rng.randint(1, 3)          # sparse: second-side agents nobody ranks
            v['pmin'] = 1
            v['pmax'] = min(v['pmax'], 2)
        v['t1'] = rng.choice([0.3, 0.6, 1.0, 0.0])
        if mp != 'ha':
            v['t2'] = rng.choice([0.3, 0.6, 1.0, 0.0])
        if q % 10 == 7:
            # a file of well over 8 KiB whose first-side part has no tie at all; ties only start on the second side
            mp = 'hr'
            v = {'mp': 'hr', 'numinst': 1, 'n1': rng.randint(1300, 1600), 'n2': rng.randint(3, 6), 'pmin': 1, 'pmax': 2,
                 't1': 0.0, 't2': rng.choice([0.5, 0.8]), 'twopl': True}
            v['uq'] = v['n1'] + 5
            ctx.cnt('large_files_whose_ties_begin_after_8_kib')
        if mp == 'spa':
            v['twopl'] = True
        outdir = ge.fresh_outdir(ctx.workdir, 'c13g')
        argv = ge.to_argv(v, outdir, rng)
        del rec[:]
        res = ge.run_generator(argv, rng.randint(0, 10 ** 6))
        ctx.cnt('generator_runs_with_list_taps')
        if res['exit'] is not None or res['exc'] is not None:
            ctx.cnt('generator_text_unobservable_run_failed')
            continue
        # records are paired with instances BY FUNCTION: the i-th call of each list-producing function belongs to
        # instance i, provided that function was called exactly once per instance (an implementation that builds
        # one side of the lists some other way leaves that side unobserved here, which is reported, not judged)
        firsts = [c for c in rec if c[0] == 'create_pref_lists_original']
        seconds = [c for c in rec if c[0] == 'create_pref_lists_from_other_lists']
        if len(firsts) != v['numinst']:
            ctx.cnt('generator_text_unobservable_first_side_tap_not_once_per_instance')
            continue
        per_inst = 2 if (v.get('twopl') and len(seconds) == v['numinst']) else 1
        if v.get('twopl') and per_inst == 1:
            ctx.cnt('generator_text_second_side_tap_not_once_per_instance')
        calls = []
        for i in range(v['numinst']):
            calls.append(firsts[i])
            if per_inst == 2:
                calls.append(seconds[i])
        na = ge.NA[mp]
        for i in range(v['numinst']):
            path = os.path.join(outdir, '%d.txt' % i)
            if not os.path.exists(path) or len(calls) < (i + 1) * per_inst:
                ctx.cnt('generator_text_unobservable_file_or_tap_missing')
                continue
            text = open(path).read()
            case = {'generator_text': True, 'argv': [a if a != outdir else '<outdir>' for a in argv], 'file': text}
            try:
                fspec, _ = op.parse_instance_file(text, na)
            except op.ParseError as e:
                ctx.finding(en.F('C13', 'generated_text_parses', 'generated file does not parse: %s' % e), case)
                continue
            first = calls[i * per_inst]
            sides = [('first', first, fspec['st'])]
            if per_inst == 2:
                sides.append(('second', calls[i * per_inst + 1], fspec['lec']))
            for side, (_nm, lists, ties), got in sides:
                for idx, (pl, tt) in enumerate(zip(lists, ties)):
                    ctx.cnt('generated_lines_judged')
                    want = groups_from(pl, tt)
                    if not pl:
                        ctx.cov('generated_empty_list')
                    if idx >= len(got) or got[idx] != want:
                        ctx.finding(en.F('C13', 'generated_text_matches_decisions', '%s-side line %d of %s/%d.txt reads %s; the list %s with tie '
                                         'decisions %s implies %s' % (side, idx + 1, mp, i, got[idx] if idx < len(got) else None, pl, tt, want)), case)
                        break
            # read back through the real solver
            try:
                s = Solver(['-f', path, '-na', str(na)] + (['-twopl'] if v.get('twopl') else []))
                ctx.cnt('generated_files_read_back')
                for srow, (pl, tt) in zip(s.model.pairs, zip(first[1], first[2])):
                    want = exp_ranks(tt, len(pl))
                    if [p.projectID for p in srow] != pl or [p.rank_student for p in srow] != want:
                        ctx.finding(en.F('C13', 'generated_ranks_read_back', 'student list %s with decisions %s read back as %s with ranks %s' % (
                            pl, tt, [p.projectID for p in srow], [p.rank_student for p in srow])), case)
                        break
                if per_inst == 2:
                    # second side: rank of student s for lecturer/hospital k as the recorded decisions imply
                    want2 = {}
                    for k, (pl, tt) in enumerate(zip(calls[i * per_inst + 1][1], calls[i * per_inst + 1][2])):
                        for sid, rk in zip(pl, exp_ranks(tt, len(pl))):
                            want2[(k + 1, sid)] = rk
                    ctx.cnt('generated_second_side_read_back')
                    for srow in s.model.pairs:
                        for p in srow:
                            if want2.get((p.lecturerID, p.studentID)) != getattr(p, 'rank_lecturer', None):
                                ctx.finding(en.F('C13', 'generated_ranks_read_back', 'second side: student %d is read with rank %s by lecturer/hospital %d; '
                                                 'the written list and tie decisions imply rank %s' % (p.studentID, getattr(p, 'rank_lecturer', None),
                                                                                                      p.lecturerID, want2.get((p.lecturerID, p.studentID)))), case)
                                raise StopIteration
            except StopIteration:
                pass
            except BaseException as e:
                ctx.finding(en.F('C13', 'generated_file_loads', 'solver cannot load the generated file: %s: %s' % (type(e).__name__, e)), case)
        ctx.nontrivial('gen/%d/%d' % (ctx.shard, q))


def replay(w, ctx):
    # the space is enumerated exhaustively; replay re-runs the whole (small) enumeration
    run_shard(ctx)


def floors(m, tier):
    out = []
    N = 10 if tier == 'quick' else 13
    total = 2 ** (N + 1) - 1
    c = m['counters']
    if c.get('vectors', 0) != total:
        out.append('enumerated %d of %d tie vectors' % (c.get('vectors', 0), total))
    if c.get('contract_evals_create_string_pref', 0) < 2 * total:
        out.append('contract on create_string_pref evaluated only %d times' % c.get('contract_evals_create_string_pref', 0))
    if c.get('reader_executions', 0) < 4 * (total - 1):
        out.append('only %d reader executions' % c.get('reader_executions', 0))
    if c.get('contract_evals_contract_errors', 0):
        out.append('%d internal contract errors' % c['contract_evals_contract_errors'])
    if not c.get('generator_text_workload_absent_list_functions_not_found'):
        # auxiliary workload (taps on two private list-producing functions); absent => reported, not inconclusive
        if c.get('generated_lines_judged', 0) < (3000 if tier == 'quick' else 50000):
            out.append('only %d generated lines judged' % c.get('generated_lines_judged', 0))
        if m['cover'].get('generated_empty_list', 0) < 20:
            out.append('only %d generated empty lists' % m['cover'].get('generated_empty_list', 0))
    return out
