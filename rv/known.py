"""Mechanism classifiers for known findings (never keyed on hashes, seeds or
random values).  A classifier receives the witness dict of one violation."""

CLASSIFIERS = {}


def classifier(fn):
    CLASSIFIERS[fn.__name__] = fn
    return fn
