"""C11 - printed statistics and listings describe the printed matching."""
from . import lpcommon as lc

ID = 'C11'
ANCHOR_FILES = ['solver/model.py', 'solver/solver.py']
LEVEL = 'exploration'
RULE = ('random small specs x random option sets; for every Optimal run both result formats are parsed strictly and size, '
        'cost pair, squared-cost pair, degree, profile, max and sum lecturer load deviation are recomputed by the reference '
        'model from (spec, printed matching line); the long listing must name every student/project/lecturer exactly once '
        'with the implied assignees, occupancy/capacity, target and (l_k) annotation; tie-break injection varies the '
        'matching that reaches the printer; non-trivial = Optimal run whose long listing was judged; distinct = distinct '
        '(instance, printed matching)')
ASSUMPTIONS = ['reference statistics in rv/refmodel.py follow the wording of C11']
PROFILE = {'name': 'c11', 'spec': {}, 'opts': {}, 'medium_rate': 0.15, 'shipped_rate': 0.02, 'large_rate': 0.04}


def plan(tier):
    return {'cases_per_shard': 400 if tier == 'quick' else 9000,
            'time_cap_s': 90 if tier == 'quick' else 560}


BIG = 99999999999999999      # an "uncapacitated" quota; not representable as a double


def run_case(cs, ctx):
    prof = PROFILE
    if cs % 40 == 9:
        prof = dict(PROFILE, name='c11big', big_quota=True, shipped_rate=0, large_rate=0,
                    opts={'crit_pool': ['maxsize', 'minsize', 'gen', 'gre', 'mincost'], 'ncrit_choices': [0, 1, 2]})
        ctx.cov('uncapacitated_huge_quota')
    r = lc.lp_case(cs, ctx, prof)
    f = r['facts']
    if f.get('status') == 'Optimal' and r['ex']['long'] is not None:
        from .. import outparse as op
        try:
            m = op.parse_results(r['ex']['short'])['stats'].get('matching')
        except Exception:
            m = None
        if m is not None:
            ctx.nontrivial(lc.case_key(r['spec'], [r['opts']['twopl'], list(m)]))
            spec = r['spec']
            if not any(m):
                ctx.cov('empty_matching')
            if any(x == 0 for x in m) and any(m):
                ctx.cov('some_student_unassigned')
            if len(set(x for x in m if x)) < spec['np']:
                ctx.cov('unused_project')
            if not r['opts']['twopl']:
                ctx.cov('one_sided_lecturer_cost_zero')
            lecs = [spec['plec'][x - 1] for x in set(m) if x]
            if len(lecs) != len(set(lecs)):
                ctx.cov('lecturer_with_several_used_projects')
            if spec['na'] == 3:
                ctx.cov('three_agent')
    # a second round of getter calls must describe the matching just as well
    if f.get('status') == 'Optimal' and cs % 3 == 0 and r['ex']['solver'] is not None and r['ex']['exc'] is None:
        s = r['ex']['solver']
        try:
            ex2 = dict(r['ex'], short=s.get_results_short(), long=s.get_results_long())
            cnt = {}
            from .. import engine as en
            f2, _ = en.judge_lp(ex2, r['ref'], counters=cnt)
            ctx.cnt('second_round_texts_judged')
            for x in f2:
                if x['prop'] == 'C11':
                    ctx.finding(dict(x, monitor=x['monitor'] + '_second_call', msg='second call of the getters: ' + x['msg']), r['case'])
        except Exception as e:
            ctx.cnt('second_round_unobservable')
    ctx.sample(lc.brief(r), cap=2)


def replay(w, ctx):
    run_case(w['case']['cs'], ctx)


def floors(m, tier):
    out = []
    c = m['counters']
    need = 1200 if tier == 'quick' else 12000
    if c.get('c11_long_judged', 0) < need:
        out.append('only %d long listings judged' % c.get('c11_long_judged', 0))
    for k in ('empty_matching', 'some_student_unassigned', 'unused_project', 'one_sided_lecturer_cost_zero',
              'lecturer_with_several_used_projects'):
        if m['cover'].get(k, 0) < 10:
            out.append('class %s seen only %d times' % (k, m['cover'].get(k, 0)))
    return out
