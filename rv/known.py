"""Mechanism classifiers for known findings (never keyed on hashes, seeds or
random values).  A classifier receives the witness dict of one violation."""

CLASSIFIERS = {}


def classifier(fn):
    CLASSIFIERS[fn.__name__] = fn
    return fn


@classifier
def objective_beyond_backend_integer_range(v):
    """KF1: a cost multiplier so large that the objective value of a matching
    reaches 2**31 (CBC's integer range / 8 significant digits in its solution
    file); the run is then reported Infeasible or fails.  Keyed on the option
    set (a multiplier >= 10**8), never on a case hash."""
    opts = (v.get('case') or {}).get('opts') or {}
    big = any(isinstance(x, int) and x >= 10 ** 8 for c in opts.get('crits', []) for x in (c[2] or []))
    return big and v.get('monitor', '').split('_after_')[0] in ('status_vs_reference', 'no_exception', 'pin_probe', 'matching_iff_optimal')


@classifier
def quota_beyond_backend_exact_range_as_coefficient(v):
    """KF2: a quota of 2**53 or more is used as a coefficient of the closure (-pc) or
    stability (-stab) rows; in double arithmetic `1 + q*c <= q` holds for c = 0, so the
    back end accepts points that violate the row.  Keyed on the instance (a quota >= 2**53)
    and the option set (-pc or -stab), never on a case hash."""
    case = v.get('case') or {}
    spec, opts = case.get('spec') or {}, case.get('opts') or {}
    big = any(isinstance(x, int) and x >= 2 ** 53 for k in ('puq', 'plq', 'luq', 'llq', 'lt') for x in (spec.get(k) or []))
    return bool(big and (opts.get('pc') or opts.get('stab')) and
                v.get('monitor', '').split('_after_')[0] in ('valid_matching', 'pin_probe'))
