"""Workload generators: instance specs, rendering to file text, option sets.

A *spec* is plain JSON-able data and is the ground truth of every oracle; the
file text is rendered from it, so the repository's file reader is under test
as well.  Nothing here imports the repository.

spec = {
  'na': 2|3, 'ns': int, 'np': int, 'nl': int,
  'st':  [ [[p, ...], [p], ...], ... ]      tie groups per student (ids 1-based)
  'plq': [...], 'puq': [...], 'plec': [...]  per project (plec 1-based lecturer)
  'llq': [...], 'lt': [...], 'luq': [...]    per lecturer
  'lec': [ [[s, ...], ...], ... ]           tie groups per lecturer/hospital
}
For na == 2 hospital j is project j of lecturer j: plec[j] = j+1, llq = plq,
lt = puq, luq = puq (that is the documented embedding, C10).
"""
import hashlib
import json
import random

CRITS = ['maxsize', 'minsize', 'gen', 'gre', 'mincost', 'minsqcost', 'lmb',
         'lsb', 'mincostlsb']
MULTS = [0, 1, 1, 1, 2, 2, 3, 5, 10, 100, 1000, 10000, 25000, 123457]


def shash(obj):
    return hashlib.sha1(json.dumps(obj, sort_keys=True, default=str).encode()).hexdigest()[:12]


def random_groups(rng, items, tie_mode):
    """Split an ordered list of items into tie groups."""
    items = list(items)
    if not items:
        return []
    if tie_mode == 'none':
        return [[x] for x in items]
    if tie_mode == 'all':
        return [items]
    p = {'low': 0.2, 'mid': 0.5, 'high': 0.8}[tie_mode]
    groups = [[items[0]]]
    for x in items[1:]:
        if rng.random() < p:
            groups[-1].append(x)
        else:
            groups.append([x])
    return groups


def _tie_mode(rng, shape):
    if shape == 'all_tied':
        return 'all'
    if shape == 'no_ties':
        return 'none'
    return rng.choice(['none', 'none', 'low', 'mid', 'mid', 'high', 'all'])


SHAPES = ['dense', 'dense', 'dense', 'lec_gt_students', 'one_lecturer',
          'zero_caps', 'lowerq', 'all_tied', 'no_ties', 'long_lists',
          'tight_lecturer', 'big_targets', 'wide', 'tall']


def make_spec(rng, na=None, max_s=4, max_p=4, max_l=4, shape=None,
              allow_empty_lists=True, min_s=1, max_list=None):
    """Random small instance, biased by *shape* towards hostile structure."""
    if na is None:
        na = rng.choice([2, 3])
    if shape is None:
        shape = rng.choice(SHAPES)
    ns = rng.randint(min_s, max_s)
    np_ = rng.randint(1, max_p)
    if shape == 'long_lists':
        np_ = max(np_, min(max_p, ns + 1))
    if shape == 'lec_gt_students':
        ns = rng.randint(min_s, max(min_s, min(2, max_s)))
        np_ = rng.randint(min(max_p, ns + 1), max_p)
    if shape == 'tall':
        # two-digit student ids: 10-12 students with very short lists (still enumerable)
        ns = rng.randint(10, 12)
        np_ = rng.randint(2, max(2, min(5, max_p)))
    if shape == 'wide':
        # two-digit project / lecturer ids (10, 11, ...), few students, short lists
        ns = rng.randint(min_s, max(min_s, min(4, max_s)))
        np_ = rng.randint(10, 13)
    if na == 2:
        nl = np_
    else:
        nl = rng.randint(1, max_l)
        if shape == 'wide':
            nl = rng.choice([2, 3, 10, 11])
        if shape == 'one_lecturer':
            nl = 1
        if shape == 'lec_gt_students':
            nl = rng.randint(min(max_l, ns + 1), max_l)
    # student lists
    st = []
    for s in range(ns):
        if shape == 'long_lists':
            k = np_
        elif shape == 'tall':
            k = 2 if (rng.random() < 0.2 and sum(1 for l in st if sum(len(g) for g in l) == 2) < 3) else 1
            projs = rng.sample(range(1, np_ + 1), min(k, np_))
            st.append(random_groups(rng, projs, _tie_mode(rng, shape)))
            continue
        elif shape == 'wide':
            k = rng.randint(1, 3)
            hi = [p for p in range(9, np_ + 1)]
            projs = rng.sample(hi, min(k, len(hi)))
            if rng.random() < 0.4:
                projs[rng.randrange(len(projs))] = rng.randint(1, 8)
            projs = list(dict.fromkeys(projs))
            st.append(random_groups(rng, projs, _tie_mode(rng, shape)))
            continue
        else:
            k = rng.randint(1, np_ if max_list is None else min(np_, max_list))
            if allow_empty_lists and rng.random() < 0.06:
                k = 0
        projs = rng.sample(range(1, np_ + 1), k)
        st.append(random_groups(rng, projs, _tie_mode(rng, shape)))
    # project quotas
    puq, plq = [], []
    for j in range(np_):
        u = rng.choice([1, 1, 1, 2, 2, 3])
        if shape == 'tall':
            u = rng.choice([1, 2, 3, 4, 5])
        if shape == 'zero_caps' and rng.random() < 0.4:
            u = 0
        elif rng.random() < 0.04:
            u = 0
        lo = 0
        pl = 0.5 if shape == 'lowerq' else 0.15
        if u > 0 and rng.random() < pl:
            lo = rng.randint(1, u)
        puq.append(u)
        plq.append(lo)
    if na == 2:
        plec = list(range(1, np_ + 1))
        llq, lt, luq = list(plq), list(puq), list(puq)
    else:
        plec = [rng.randint(1, nl) for _ in range(np_)]
        if shape == 'lec_gt_students' and rng.random() < 0.7:
            # spread projects over distinct lecturers
            pool = rng.sample(range(1, nl + 1), min(nl, np_))
            plec = [pool[j % len(pool)] for j in range(np_)]
        llq, lt, luq = [], [], []
        for k in range(nl):
            tot = sum(puq[j] for j in range(np_) if plec[j] == k + 1)
            if shape == 'tight_lecturer':
                u = rng.randint(0, max(0, tot - 1)) if tot else rng.randint(0, 2)
            elif shape == 'big_targets':
                u = rng.randint(max(1, tot), tot + 4)
            else:
                u = rng.choice([tot, tot, max(0, tot - 1), rng.randint(0, tot + 1)])
            if shape == 'zero_caps' and rng.random() < 0.3:
                u = 0
            lo = 0
            if u > 0 and rng.random() < (0.35 if shape == 'lowerq' else 0.1):
                lo = rng.randint(1, u)
            if shape == 'big_targets':
                t = rng.randint(max(lo, u - 1), u)
            else:
                t = rng.randint(lo, u)
            llq.append(lo)
            lt.append(t)
            luq.append(u)
    # second-side lists: exactly the students ranking >=1 project of the lecturer
    lec = []
    for k in range(nl):
        studs = [s + 1 for s in range(ns)
                 if any(plec[p - 1] == k + 1 for g in st[s] for p in g)]
        rng.shuffle(studs)
        lec.append(random_groups(rng, studs, _tie_mode(rng, shape)))
    return {'na': na, 'ns': ns, 'np': np_, 'nl': nl, 'st': st, 'plq': plq,
            'puq': puq, 'plec': plec, 'llq': llq, 'lt': lt, 'luq': luq,
            'lec': lec, 'shape': shape}


def groups_to_tokens(groups):
    """Tie groups -> tokens in the generator's notation: (a b) c."""
    toks = []
    for g in groups:
        if len(g) == 1:
            toks.append(str(g[0]))
        else:
            for i, x in enumerate(g):
                t = str(x)
                if i == 0:
                    t = '(' + t
                if i == len(g) - 1:
                    t = t + ')'
                toks.append(t)
    return toks


def render(spec, rng=None, second_side=True, info_block=None, noise=False, exotic_ws=False):
    """Render a spec in the documented file format.

    noise: 1-3 blanks/tabs between tokens and trailing blanks (never inside a
    token; the colon stays attached to the field it ends, as the generator
    writes it).
    """
    r = rng or random.Random(0)

    def sep():
        if not noise:
            return ' '
        chars = [' ', ' ', '\t'] + (['\x0c', '\x0b'] if exotic_ws else [])
        return ''.join(r.choice(chars) for _ in range(r.randint(1, 3)))

    def trail():
        if not noise:
            return ''
        return ''.join(r.choice([' ', '\t']) for _ in range(r.randint(0, 2)))

    def line(fields, toks):
        out = ''
        parts = [f + ':' for f in fields] + list(toks)
        for i, p in enumerate(parts):
            out += p
            if i < len(parts) - 1:
                out += sep()
        if not toks:
            # the generator leaves a trailing blank after the last colon
            out += ' ' if not noise else trail() or ' '
        return out + trail() + '\n'

    na = spec['na']
    if na == 2:
        text = str(spec['ns']) + sep() + str(spec['np']) + trail() + '\n'
    else:
        text = (str(spec['ns']) + sep() + str(spec['np']) + sep() +
                str(spec['nl']) + trail() + '\n')
    for s in range(spec['ns']):
        text += line([str(s + 1)], groups_to_tokens(spec['st'][s]))
    if na == 2:
        for j in range(spec['np']):
            toks = groups_to_tokens(spec['lec'][j]) if second_side else []
            text += line([str(j + 1), str(spec['plq'][j]), str(spec['puq'][j])], toks)
    else:
        for j in range(spec['np']):
            out = (str(j + 1) + ':' + sep() + str(spec['plq'][j]) + ':' + sep() +
                   str(spec['puq'][j]) + ':' + sep() + str(spec['plec'][j]) + trail() + '\n')
            text += out
        for k in range(spec['nl']):
            toks = groups_to_tokens(spec['lec'][k]) if second_side else []
            text += line([str(k + 1), str(spec['llq'][k]), str(spec['lt'][k]),
                          str(spec['luq'][k])], toks)
    if info_block is None:
        info_block = r.random() < 0.5 if noise else True
    if info_block:
        text += '\ninstance generation parameters\nnumber_of_agents_type_1: %d\n' % spec['ns']
        text += 'number_of_agents_type_2: %d\nmin_pref_list_length: 1\n' % spec['np']
    return text


def max_rank(spec):
    return max([len(gs) for gs in spec['st']] + [0])


def make_crit(rng, name, pos, R, admissible=True):
    """One criterion with extras drawn from the admissible ranges."""
    ex = []
    if name == 'gen':
        if R >= 1 and rng.random() < 0.5:
            ex = [rng.randint(1, R)]
    elif name == 'gre':
        if rng.random() < 0.5:
            ex = [rng.randint(1, R + 2)]
    elif name in ('mincost', 'minsqcost', 'mincostlsb'):
        k = rng.choice([0, 0, 1, 2, 2])
        ex = [rng.choice(MULTS) for _ in range(k)]
        if k == 2 and rng.random() < 0.5:
            # small unequal non-zero weights: both parts matter and trade off
            ex = list(rng.choice([(1, 2), (2, 1), (1, 3), (3, 1), (2, 3), (3, 2), (1, 5), (5, 1), (2, 5), (5, 2), (3, 4), (4, 3)]))
    return [name, pos, ex]


def make_opts(rng, spec, ncrit=None, stab=None, pc=None, twopl=None,
              crit_pool=None):
    R = max_rank(spec)
    if twopl is None:
        twopl = rng.random() < 0.7
    if stab is None:
        stab = twopl and rng.random() < 0.35
    if not twopl:
        stab = False
    if pc is None:
        pc = rng.random() < 0.3
    if ncrit is None:
        ncrit = rng.choice([0, 1, 1, 1, 2, 2, 3, 4])
    pool = list(crit_pool or CRITS)
    names = rng.sample(pool, min(ncrit, len(pool)))
    positions = sorted(rng.sample(range(1, 10), len(names)))
    rng.shuffle(names)
    crits = [make_crit(rng, n, p, R) for n, p in zip(names, positions)]
    return {'twopl': bool(twopl), 'stab': bool(stab), 'pc': bool(pc), 'crits': crits}


def crit_of_flag(a):
    """Criterion name for a short or long criterion flag, else None."""
    for short, lng in SOLVER_LONG.items():
        if a in (short, lng) and short[1:] in CRITS:
            return short[1:]
    return None


def ordered_crits(opts):
    return sorted(opts['crits'], key=lambda c: c[1])


SOLVER_LONG = {'-f': '-filename', '-na': '-numagents', '-twopl': '-twosidedpreferencelists', '-pc': '-projectclosures',
               '-stab': '-stability', '-maxsize': '-maximisesize', '-minsize': '-minimisesize', '-gen': '-generous',
               '-gre': '-greedy', '-mincost': '-minimisecost', '-minsqcost': '-minimisesquaredcost',
               '-lmb': '-loadmaxbalanced', '-lsb': '-loadsumbalanced', '-bf': '-bruteforce',
               '-mincostlsb': '-minimisecostloadsumbalanced'}


def long_names(argv, rng, table, rate=0.15):
    """Replace documented short flags by their documented long forms at random."""
    if rng is None:
        return argv
    return [table[a] if a in table and rng.random() < rate else a for a in argv]


def opts_to_argv(opts, rng=None, extra=()):
    """Flags in a random permutation (positions, not flag order, decide)."""
    chunks = []
    if opts.get('twopl'):
        chunks.append(['-twopl'])
    if opts.get('pc'):
        chunks.append(['-pc'])
    if opts.get('stab'):
        chunks.append(['-stab'])
    if opts.get('bf'):
        chunks.append(['-bf'])
    for name, pos, ex in opts['crits']:
        chunks.append(['-' + name, str(pos)] + [str(x) for x in ex])
    for e in extra:
        chunks.append(list(e))
    if rng is not None:
        rng.shuffle(chunks)
    return long_names([t for c in chunks for t in c], rng, SOLVER_LONG)


def even_spread(total, n):
    """As even as possible, larger shares first, summing to total."""
    q, r = divmod(int(total), n)
    return [q + 1 if i < r else q for i in range(n)]


def make_spec_bf(rng, cap=20000, **kw):
    """A spec small enough for the repository's brute-force mode, which enumerates
    (projects + 1) ** students candidate matchings."""
    for _ in range(200):
        spec = make_spec(rng, **kw)
        if (spec['np'] + 1) ** spec['ns'] <= cap:
            return spec
    kw = dict(kw, shape='dense', max_s=4, max_p=4)
    return make_spec(rng, **kw)


def make_big_spec(rng, na=None):
    """10-14 students AND 11-14 projects/hospitals (two-digit ids on both sides,
    ties anywhere); not meant for enumeration."""
    spec = make_spec(rng, na=na, max_s=14, min_s=10, max_p=6, max_l=4, shape='dense')
    ns = spec['ns']
    np_ = rng.randint(11, 14)
    nl = np_ if spec['na'] == 2 else rng.choice([3, 4, 11, 12])
    st = []
    for s_ in range(ns):
        k = rng.randint(2, 4)
        st.append(random_groups(rng, rng.sample(range(1, np_ + 1), k), rng.choice(['none', 'low', 'mid', 'high', 'all'])))
    puq = [rng.choice([1, 2, 3]) for _ in range(np_)]
    plq = [0 if rng.random() < 0.8 else 1 for _ in range(np_)]
    if spec['na'] == 2:
        plec = list(range(1, np_ + 1))
        llq, lt, luq = list(plq), list(puq), list(puq)
    else:
        plec = [rng.randint(1, nl) for _ in range(np_)]
        luq = [max(1, sum(puq[j] for j in range(np_) if plec[j] == k + 1)) for k in range(nl)]
        llq = [0] * nl
        lt = [rng.randint(0, u) for u in luq]
    lec = []
    for k in range(nl):
        studs = [x + 1 for x in range(ns) if any(plec[p - 1] == k + 1 for g in st[x] for p in g)]
        rng.shuffle(studs)
        lec.append(random_groups(rng, studs, rng.choice(['none', 'low', 'mid', 'high', 'all'])))
    return {'na': spec['na'], 'ns': ns, 'np': np_, 'nl': nl, 'st': st, 'plq': plq, 'puq': puq, 'plec': plec,
            'llq': llq, 'lt': lt, 'luq': luq, 'lec': lec, 'shape': 'big'}


def make_huge_id_spec(rng):
    """Three-digit ids: 300 lecturers with two projects each (600 projects); the few
    students only list projects of lecturers 258..300 (beyond CPython's small-int cache),
    often two projects of one lecturer; capacities are tight so lecturers fill up."""
    nl, np_ = 300, 600
    plec = [j // 2 + 1 for j in range(np_)]
    ns = rng.randint(2, 4)
    lecs = rng.sample(range(258, 301), rng.randint(1, 3))
    pool = [2 * k - 1 for k in lecs] + [2 * k for k in lecs]
    st = []
    for _ in range(ns):
        k = rng.randint(2, min(4, len(pool)))
        st.append(random_groups(rng, rng.sample(pool, k), rng.choice(['none', 'none', 'low', 'mid'])))
    puq = [1] * np_
    plq = [0] * np_
    for p in pool:
        puq[p - 1] = rng.choice([1, 1, 2])
    luq = [2] * nl
    for k in lecs:
        luq[k - 1] = rng.choice([1, 1, 2, 2, 3])
    llq = [0] * nl
    lt = [rng.randint(0, u) for u in luq]
    lec = []
    for k in range(nl):
        studs = [x + 1 for x in range(ns) if any(plec[p - 1] == k + 1 for g in st[x] for p in g)]
        rng.shuffle(studs)
        lec.append(random_groups(rng, studs, rng.choice(['none', 'low', 'all'])))
    return {'na': 3, 'ns': ns, 'np': np_, 'nl': nl, 'st': st, 'plq': plq, 'puq': puq, 'plec': plec,
            'llq': llq, 'lt': lt, 'luq': luq, 'lec': lec, 'shape': 'huge_ids'}


def make_huge_id_hr_spec(rng):
    """HR with three-digit hospital ids: 300 hospitals, a few residents who only list hospitals 258..300
    (beyond CPython's small-int cache) and compete for their places."""
    nh = 300
    ns = rng.randint(2, 5)
    pool = rng.sample(range(258, 301), rng.randint(2, 4))
    st = []
    for _ in range(ns):
        k = rng.randint(1, min(3, len(pool)))
        st.append(random_groups(rng, rng.sample(pool, k), rng.choice(['none', 'none', 'low', 'mid'])))
    puq = [1] * nh
    for h in pool:
        puq[h - 1] = rng.choice([1, 1, 2])
    plq = [0] * nh
    lec = []
    for h in range(1, nh + 1):
        studs = [x + 1 for x in range(ns) if any(h in g for g in st[x])]
        rng.shuffle(studs)
        lec.append(random_groups(rng, studs, rng.choice(['none', 'none', 'low', 'all'])))
    return {'na': 2, 'ns': ns, 'np': nh, 'nl': nh, 'st': st, 'plq': plq, 'puq': puq, 'plec': list(range(1, nh + 1)),
            'llq': list(plq), 'lt': list(puq), 'luq': list(puq), 'lec': lec, 'shape': 'huge_ids_hr'}


def make_eleven_spec(rng):
    """11-12 students and 11-12 projects with very short lists: cheap to solve, and ids whose decimal digits
    collide when written without a separator (student 1 / project 11 against student 11 / project 1)."""
    ns, np_ = rng.randint(11, 12), rng.randint(11, 12)
    nl = rng.choice([np_, 3, 4])
    na = 2 if nl == np_ else 3
    plec = list(range(1, np_ + 1)) if na == 2 else [rng.randint(1, nl) for _ in range(np_)]
    st = []
    for s_ in range(1, ns + 1):
        pool = [1, 11, np_, 2, 10]
        k = rng.randint(1, 2)
        st.append([[p] for p in rng.sample(sorted({p for p in pool if p <= np_}), k)])
    st[0] = [[11], [1]] if rng.random() < 0.5 else [[11]]
    st[10] = [[1], [11]] if rng.random() < 0.5 else [[1]]
    puq = [rng.choice([1, 2, 3]) for _ in range(np_)]
    plq = [0] * np_
    if na == 2:
        llq, lt, luq = list(plq), list(puq), list(puq)
    else:
        luq = [rng.choice([2, 3, 5]) for _ in range(nl)]
        lt = [rng.randint(0, u) for u in luq]
        llq = [0] * nl
    lec = []
    for k in range(nl):
        studs = [x + 1 for x in range(ns) if any(plec[p - 1] == k + 1 for g in st[x] for p in g)]
        rng.shuffle(studs)
        lec.append(random_groups(rng, studs, rng.choice(['none', 'low', 'all'])))
    return {'na': na, 'ns': ns, 'np': np_, 'nl': nl, 'st': st, 'plq': plq, 'puq': puq, 'plec': plec,
            'llq': llq, 'lt': lt, 'luq': luq, 'lec': lec, 'shape': 'eleven'}


def make_zero_student_spec(rng):
    """An instance whose header announces no students at all (projects and lecturers exist)."""
    na = rng.choice([2, 3])
    np_ = rng.randint(1, 3)
    if na == 2:
        puq = [rng.choice([0, 1, 2]) for _ in range(np_)]
        plq = [rng.choice([0, 0, 1]) if u else 0 for u in puq]
        return {'na': 2, 'ns': 0, 'np': np_, 'nl': np_, 'st': [], 'plq': plq, 'puq': puq, 'plec': list(range(1, np_ + 1)),
                'llq': list(plq), 'lt': list(puq), 'luq': list(puq), 'lec': [[] for _ in range(np_)], 'shape': 'zero_students'}
    nl = rng.randint(1, 2)
    puq = [rng.choice([0, 1, 2]) for _ in range(np_)]
    plq = [rng.choice([0, 0, 1]) if u else 0 for u in puq]
    luq = [rng.choice([0, 1, 2]) for _ in range(nl)]
    lt = [rng.randint(0, u) for u in luq]
    llq = [rng.choice([0, 0, t]) for t in lt]
    return {'na': 3, 'ns': 0, 'np': np_, 'nl': nl, 'st': [], 'plq': plq, 'puq': puq, 'plec': [rng.randint(1, nl) for _ in range(np_)],
            'llq': llq, 'lt': lt, 'luq': luq, 'lec': [[] for _ in range(nl)], 'shape': 'zero_students'}


def make_long_list_spec(rng):
    """Two or three students, one of whom ranks 10 to 13 projects (ranks with two digits: rank 10 sorts before
    rank 2 as a string); the others compete for that student's first choices."""
    np_ = rng.randint(10, 13)
    ns = rng.randint(2, 3)
    order = list(range(1, np_ + 1))
    rng.shuffle(order)
    st = [random_groups(rng, order, rng.choice(['none', 'none', 'none', 'low']))]
    for _ in range(ns - 1):
        k = rng.randint(1, 2)
        st.append([[p] for p in rng.sample(order[:3] + order[-2:], k)])
    rng.shuffle(st)
    nl = rng.choice([1, 2, 3])
    plec = [rng.randint(1, nl) for _ in range(np_)]
    puq = [1] * np_
    plq = [0] * np_
    luq = [rng.choice([1, 2, ns]) for _ in range(nl)]
    llq = [0] * nl
    lt = [rng.randint(0, u) for u in luq]
    lec = []
    for k in range(nl):
        studs = [x + 1 for x in range(ns) if any(plec[p - 1] == k + 1 for g in st[x] for p in g)]
        rng.shuffle(studs)
        lec.append(random_groups(rng, studs, rng.choice(['none', 'low', 'all'])))
    return {'na': 3, 'ns': ns, 'np': np_, 'nl': nl, 'st': st, 'plq': plq, 'puq': puq, 'plec': plec,
            'llq': llq, 'lt': lt, 'luq': luq, 'lec': lec, 'shape': 'long_list'}


def make_long_rank_spec(rng):
    """A student whose list has more than 1000 distinct ranks; all projects up to rank
    1000+ have capacity 0, only the last few can take anybody."""
    np_ = rng.randint(1003, 1010)
    order = list(range(1, np_ + 1))
    rng.shuffle(order)
    ns = 2
    st = [[[p] for p in order], [[order[-1]], [order[-2]]]]
    puq = [0] * np_
    for p in order[1000:]:
        puq[p - 1] = 1
    plq = [0] * np_
    na = rng.choice([2, 3])
    if na == 2:
        nl = np_
        plec = list(range(1, np_ + 1))
        llq, lt, luq = list(plq), list(puq), list(puq)
    else:
        nl = 2
        plec = [1 + (j % 2) for j in range(np_)]
        luq = [2, 2]
        llq = [0, 0]
        lt = [1, 1]
    lec = []
    for k in range(nl):
        studs = [x + 1 for x in range(ns) if any(plec[p - 1] == k + 1 for g in st[x] for p in g)]
        rng.shuffle(studs)
        lec.append([[x] for x in studs])
    return {'na': na, 'ns': ns, 'np': np_, 'nl': nl, 'st': st, 'plq': plq, 'puq': puq, 'plec': plec,
            'llq': llq, 'lt': lt, 'luq': luq, 'lec': lec, 'shape': 'long_ranks'}


def make_size_cost_cross_spec(rng):
    """3-agent instances in which valid matchings of different SIZES exist and the larger
    ones tend to be cheaper per rank: 'pair' projects with lower quota 2 ranked high,
    single-seat projects ranked low, and a lecturer lower quota that forbids the empty
    matching (meant to be run with -pc)."""
    ns = rng.randint(2, 4)
    n_pair = rng.randint(1, 2)
    n_single = rng.randint(1, 3)
    np_ = n_pair + n_single
    nl = rng.randint(1, 2)
    plq = [2] * n_pair + [rng.choice([0, 0, 1]) for _ in range(n_single)]
    puq = [rng.choice([2, 3]) for _ in range(n_pair)] + [1] * n_single
    plec = [rng.randint(1, nl) for _ in range(np_)]
    st = []
    for _ in range(ns):
        pairs = rng.sample(range(1, n_pair + 1), rng.randint(0, n_pair))
        singles = rng.sample(range(n_pair + 1, np_ + 1), rng.randint(1, n_single))
        order = pairs + singles if rng.random() < 0.75 else singles + pairs
        st.append(random_groups(rng, order, rng.choice(['none', 'none', 'low'])))
    luq, llq, lt = [], [], []
    for k in range(nl):
        tot = sum(puq[j] for j in range(np_) if plec[j] == k + 1)
        u = max(1, tot)
        lo = rng.choice([0, 1, 1]) if tot else 0
        luq.append(u)
        llq.append(lo)
        lt.append(rng.randint(lo, u))
    lec = []
    for k in range(nl):
        studs = [x + 1 for x in range(ns) if any(plec[p - 1] == k + 1 for g in st[x] for p in g)]
        rng.shuffle(studs)
        lec.append(random_groups(rng, studs, 'low'))
    return {'na': 3, 'ns': ns, 'np': np_, 'nl': nl, 'st': st, 'plq': plq, 'puq': puq, 'plec': plec,
            'llq': llq, 'lt': lt, 'luq': luq, 'lec': lec, 'shape': 'size_cost_cross'}
