"""Generator engine shared by C08, C09, C12, C15: legal parameter vectors,
single-fault perturbations, monitored Generator(args) runs, strict file checks."""
import contextlib
import io
import os
import random
import shutil
import sys
import tempfile

from . import outparse as op
from .spec import even_spread
from .taps import FS

NA = {'ha': 2, 'sm': 2, 'hr': 2, 'spa': 3}
REQUIRED = {'ha': ['n1', 'n2', 'pmin', 'pmax', 'uq'],
            'sm': ['n1', 'pmin', 'pmax', 'twopl'],
            'hr': ['n1', 'n2', 'pmin', 'pmax', 'uq', 'twopl'],
            'spa': ['n1', 'n2', 'n3', 'pmin', 'pmax', 'uq', 'luq']}
BANNED = {'ha': ['twopl', 'n3', 't2', 'llq', 'luq', 'lt'],
          'sm': ['n2', 'n3', 'uq', 'lq', 'llq', 'luq', 'lt'],
          'hr': ['n3', 'llq', 'luq', 'lt'],
          'spa': []}
ORDER = ['n1', 'n2', 'n3', 'pmin', 'pmax', 't1', 't2', 'skew', 'lq', 'uq', 'llq', 'lt', 'luq']
GEN_LONG = {'-numinst': '--numberinstances', '-o': '--outputdirectory', '-mp': '--matchingproblem', '-twopl': '--preferencelists2',
            '-skew': '--linearskew', '-n1': '--numberofagents1', '-n2': '--numberofagents2', '-n3': '--numberofagents3',
            '-pmin': '--minpreflistlength', '-pmax': '--maxpreflistlength', '-t1': '--ties1', '-t2': '--ties2',
            '-lq': '--lowerquotas', '-uq': '--upperquotas', '-llq': '--lecturerlowerquotas', '-luq': '--lecturerupperquotas',
            '-lt': '--lecturertargets'}


def legal_vector(rng, mp=None, max_n1=12, max_n2=12, max_n3=8, big=False):
    """A legal argument vector as a dict of parameter -> value (None = omitted)."""
    mp = mp or rng.choice(['ha', 'sm', 'hr', 'spa'])
    v = {'mp': mp, 'numinst': rng.randint(1, 4)}
    n1 = rng.randint(1, max_n1)
    n2 = n1 if mp == 'sm' else rng.randint(1, max_n2)
    v['n1'] = n1
    if mp != 'sm':
        v['n2'] = n2
    choice = rng.random()
    if choice < 0.2:
        pmin = pmax = rng.randint(1, n2)
    elif choice < 0.35:
        pmin, pmax = rng.randint(1, n2), n2
    else:
        pmin = rng.randint(1, n2)
        pmax = rng.randint(pmin, n2)
    v['pmin'], v['pmax'] = pmin, pmax
    tchoices = [None, 0.0, 1.0, 0.3, 0.5, 0.85]
    v['t1'] = rng.choice(tchoices)
    if mp != 'ha':
        v['t2'] = rng.choice(tchoices)
    v['skew'] = rng.choice([None, 0.2, 1.0, 5.0, 50.0, 2.5])
    if mp != 'sm':
        uq = n2 + rng.choice([0, 0, 1, 2, 3, rng.randint(0, 10)])
        v['uq'] = uq
        if rng.random() < 0.5:
            v['lq'] = rng.choice([0, rng.randint(0, uq), rng.randint(0, max(0, n1 // 2))])
            v['lq'] = min(v['lq'], uq)
    v['twopl'] = mp in ('sm', 'hr') or (mp == 'spa' and rng.random() < 0.6)
    if mp == 'spa':
        n3 = rng.randint(1, max_n3)
        v['n3'] = n3
        luq = rng.choice([rng.randint(1, n1 + 5), max(1, n3 - 1), n3, n1, n1 + 2])
        v['luq'] = luq
        if rng.random() < 0.6:
            lt = rng.randint(0, luq)
            v['lt'] = lt
            if rng.random() < 0.5:
                v['llq'] = rng.randint(0, lt)
        elif rng.random() < 0.3:
            v['llq'] = 0
    return v


def to_argv(v, outdir, rng=None):
    chunks = [['-numinst', str(v['numinst'])], ['-o', outdir], ['-mp', v['mp']]]
    if 'numinst' in v.get('_omit', ()):
        chunks = [c for c in chunks if c[0] != '-numinst']
    if 'o' in v.get('_omit', ()):
        chunks = [c for c in chunks if c[0] != '-o']
    if 'mp' in v.get('_omit', ()):
        chunks = [c for c in chunks if c[0] != '-mp']
    if v.get('twopl'):
        chunks.append(['-twopl'])
    for k in ORDER:
        if v.get(k) is not None:
            txt = repr(v[k]) if isinstance(v[k], float) else str(v[k])
            if k == 'skew' and v.get('skew_text'):
                txt = v['skew_text']
            chunks.append(['-' + k, txt])
    if rng is not None:
        r = rng.random()
        for c in chunks:
            if c[0] == '-o' and outdir.startswith(os.path.join(tempfile.gettempdir(), '~') + os.sep):
                c[1] = os.path.relpath(outdir, tempfile.gettempdir())         # '~/gen_x/instances': a directory called '~'
            elif c[0] == '-o' and r < 0.06:
                c[1] = outdir + '/'                                           # trailing separator
            elif c[0] == '-o' and r < 0.12:
                c[1] = os.path.relpath(outdir, tempfile.gettempdir())         # relative to the working directory (run_generator)
        rng.shuffle(chunks)
        for c in chunks:
            if c[0] in GEN_LONG and rng.random() < 0.15:     # documented long forms
                c[0] = GEN_LONG[c[0]]
                if rng.random() < 0.25 and c[0] not in ('--ties1', '--ties2', '--numberofagents1', '--numberofagents2',
                                                         '--numberofagents3', '--lecturerlowerquotas', '--lecturerupperquotas',
                                                         '--lowerquotas'):
                    c[0] = c[0][:-2]                          # argparse accepts unambiguous prefixes of long options
        for c in chunks:
            if len(c) == 2 and rng.random() < 0.08 and not str(c[1]).startswith('-'):
                c[:] = [c[0] + '=' + c[1]]                    # argparse's attached flag=value spelling
    return [t for c in chunks for t in c]


def perturbations(v, rng):
    """All single-fault perturbations of a legal vector: (kind, perturbed vector)."""
    mp = v['mp']
    out = []
    for k in REQUIRED[mp]:
        w = dict(v)
        if k == 'twopl':
            w['twopl'] = False
        else:
            w[k] = None
        out.append(('missing_' + k, w))
    for k in ('numinst', 'o', 'mp'):
        w = dict(v)
        w['_omit'] = (k,)
        out.append(('missing_' + k, w))
    for k in BANNED[mp]:
        w = dict(v)
        if k == 'twopl':
            w['twopl'] = True
        elif k in ('t2',):
            w[k] = rng.choice([0.0, 0.5, 1.0])
        elif k in ('n2', 'n3'):
            w[k] = rng.randint(1, 5)
        else:
            w[k] = rng.randint(0, 6)
        out.append(('banned_' + k, w))
    n2 = v['n1'] if mp == 'sm' else v['n2']

    def viol(kind, **kw):
        w = dict(v)
        w.update(kw)
        out.append(('bound_' + kind, w))
    viol('numinst_lt_1', numinst=rng.choice([0, -1]))
    viol('n1_lt_1', n1=rng.choice([0, -1]))
    if mp != 'sm':
        viol('n2_lt_1', n2=rng.choice([0, -1]))
    if mp == 'spa':
        viol('n3_lt_1', n3=rng.choice([0, -1]))
    viol('pmin_lt_1', pmin=rng.choice([0, -1]))
    if v['pmin'] > 1:
        viol('pmax_lt_pmin', pmax=v['pmin'] - 1)
    else:
        viol('pmax_lt_pmin', pmin=2, pmax=1) if n2 >= 2 else None
    viol('pmax_gt_rankable', pmax=n2 + rng.choice([1, 2]))
    viol('t1_out_of_range', t1=rng.choice([-0.1, 1.1, 2.0, -1.0]))
    if mp != 'ha':
        viol('t2_out_of_range', t2=rng.choice([-0.1, 1.1, 2.0, -1.0]))
    if mp != 'sm':
        viol('uq_lt_n2', uq=n2 - 1, lq=None)
        viol('lq_gt_uq', lq=v['uq'] + rng.choice([1, 2]))
        viol('lq_negative', lq=-1)
    if mp == 'spa':
        viol('luq_lt_1', luq=rng.choice([0, -1]), lt=None, llq=None)
        viol('lt_gt_luq', lt=v['luq'] + 1, llq=None)
        lt = v.get('lt') or 0
        viol('llq_gt_lt', llq=lt + 1)
        viol('llq_negative', llq=-1)
        viol('lt_negative', lt=-1, llq=None)
    return [(k, w) for k, w in out if w is not None]


def run_generator(argv, seed):
    """Monitored Generator(argv): returns outcome dict; never raises."""
    import numpy as np
    from matchingproblems.generator import Generator
    if seed % 3 == 1:
        try:    # the module's documented creation function
            from matchingproblems.generator.generator import create as Generator   # noqa: N813
        except Exception:
            pass
    random.seed(seed)
    np.random.seed(seed % (2 ** 32))
    err = io.StringIO()
    out = {'exit': None, 'exc': None, 'stderr': '', 'fs': []}
    FS.install()
    FS.start()
    cwd = os.getcwd()
    try:
        os.chdir(tempfile.gettempdir())      # the worker's private scratch directory; relative -o spellings start here
        with contextlib.redirect_stderr(err):
            Generator(list(argv))
    except SystemExit as e:
        out['exit'] = e.code
    except BaseException as e:
        from .engine import exc_info
        out['exc'] = exc_info(e) if isinstance(e, Exception) else {'type': type(e).__name__, 'msg': str(e), 'where': ''}
    finally:
        out['fs'] = FS.stop()
        os.chdir(cwd)
    out['stderr'] = err.getvalue()
    return out


def effective(v):
    """Parameter values after the documented defaults."""
    mp = v['mp']
    e = dict(v)
    if mp == 'sm':
        e['n2'] = v['n1']
        e['uq'] = v['n1']
    for k, d in (('lq', 0), ('llq', 0), ('t1', 0.0), ('t2', 0.0), ('lt', 0), ('skew', 1.0)):
        if e.get(k) is None:
            e[k] = d
    return e


def check_file(text, v):
    """Strict C08 checks of one generated file.  Returns (problems, parsed spec)."""
    e = effective(v)
    mp = v['mp']
    na = NA[mp]
    probs = []
    try:
        spec, params = op.parse_instance_file(text, na)
    except op.ParseError as ex:
        return ['file does not parse: %s' % ex], None
    if spec['ns'] != e['n1'] or spec['np'] != e['n2'] or (na == 3 and spec['nl'] != e['n3']):
        probs.append('header counts %s differ from the requested n1=%s n2=%s n3=%s' % (
            (spec['ns'], spec['np'], spec['nl']), e['n1'], e['n2'], e.get('n3')))
        return probs, spec
    for s, groups in enumerate(spec['st']):
        flat = [x for g in groups for x in g]
        if not (e['pmin'] <= len(flat) <= e['pmax']):
            probs.append('first-side list %d has length %d outside [%d,%d]' % (s + 1, len(flat), e['pmin'], e['pmax']))
        if len(set(flat)) != len(flat):
            probs.append('first-side list %d repeats an entry: %s' % (s + 1, flat))
        if any(not (1 <= x <= e['n2']) for x in flat):
            probs.append('first-side list %d names an agent outside 1..%d: %s' % (s + 1, e['n2'], flat))
    if spec['plq'] != even_spread(e['lq'], e['n2']):
        probs.append('lower quotas %s are not the even spread %s of %d' % (spec['plq'], even_spread(e['lq'], e['n2']), e['lq']))
    if spec['puq'] != even_spread(e['uq'], e['n2']):
        probs.append('upper quotas %s are not the even spread %s of %d' % (spec['puq'], even_spread(e['uq'], e['n2']), e['uq']))
    if any(a > b for a, b in zip(spec['plq'], spec['puq'])):
        probs.append('a lower quota exceeds the upper quota: %s / %s' % (spec['plq'], spec['puq']))
    if na == 3:
        n3 = e['n3']
        for key, name in (('llq', 'llq'), ('lt', 'lt'), ('luq', 'luq')):
            if spec[key] != even_spread(e[name], n3):
                probs.append('lecturer %s %s are not the even spread %s of %s' % (key, spec[key], even_spread(e[name], n3), e[name]))
        if any(not (a <= b <= c) for a, b, c in zip(spec['llq'], spec['lt'], spec['luq'])):
            probs.append('lecturer lower <= target <= upper broken: %s %s %s' % (spec['llq'], spec['lt'], spec['luq']))
        counts = [spec['plec'].count(k + 1) for k in range(n3)]
        if any(not (1 <= x <= n3) for x in spec['plec']) or counts != even_spread(e['n2'], n3):
            probs.append('projects per lecturer %s (from %s), expected %s' % (counts, spec['plec'], even_spread(e['n2'], n3)))
    # parameter block echo
    want = {'number_of_agents_type_1': e['n1'], 'number_of_agents_type_2': e['n2'], 'min_pref_list_length': e['pmin'],
            'max_pref_list_length': e['pmax'], 'ties_probability_1': e['t1'], 'ties_probability_2': e['t2'],
            'sum_agent2_lower_quotas': e['lq'], 'sum_agent2_upper_quotas': e['uq'], 'skew_for_agent_1': e['skew']}
    if na == 3:
        want.update({'number_of_agents_type_3': e['n3'], 'sum_agent3_lower_quotas': e['llq'], 'sum_agent3_targets': e['lt'],
                     'sum_agent3_upper_quotas': e['luq']})
    for k, val in want.items():
        if k not in params:
            probs.append('parameter block lacks %s' % k)
            continue
        try:
            if abs(float(params[k]) - float(val)) > 1e-12:
                probs.append('parameter block says %s: %s, requested %s' % (k, params[k], val))
        except ValueError:
            probs.append('parameter block value %s: %r is not a number' % (k, params[k]))
    # ties at probability 0 / 1
    def tie_check(lists, t, side):
        if t == 0.0 and any(len(g) >= 2 for l in lists for g in l):
            probs.append('%s-side tie probability 0 but a tie was written' % side)
        if t == 1.0 and any(len(l) != 1 for l in lists if sum(len(g) for g in l) >= 2):
            probs.append('%s-side tie probability 1 but a list of length >= 2 is not one tie group' % side)
    tie_check(spec['st'], e['t1'], 'first')
    second_entries = sum(len(g) for l in spec['lec'] for g in l)
    if v.get('twopl'):
        tie_check(spec['lec'], e['t2'], 'second')
        if second_entries == 0:
            probs.append('two-sided lists requested but no second-side list has any entry')
    elif second_entries:
        probs.append('one-sided run but second-side lists are present: %s' % spec['lec'])
    return probs, spec


def check_second_side(spec, mp):
    """C12: second-side lists rank exactly the agents that accept them."""
    probs = []
    ns = spec['ns']
    for k, groups in enumerate(spec['lec']):
        flat = [x for g in groups for x in g]
        if mp == 'spa':
            want = sorted(s + 1 for s in range(ns) if any(spec['plec'][p - 1] == k + 1 for g in spec['st'][s] for p in g))
            who = 'lecturer'
        else:
            want = sorted(s + 1 for s in range(ns) if any(p == k + 1 for g in spec['st'][s] for p in g))
            who = 'hospital/woman'
        if sorted(flat) != want:
            extra = sorted(set(flat) - set(want))
            missing = sorted(set(want) - set(flat))
            dup = sorted({x for x in flat if flat.count(x) > 1})
            probs.append('%s %d lists %s; the agents that accept it are %s (missing %s, foreign %s, repeated %s)' % (
                who, k + 1, flat, want, missing, extra, dup))
    return probs


def list_outputs(outdir):
    if not os.path.isdir(outdir):
        return None
    return sorted(os.listdir(outdir))


_OUTDIR_CALLS = [0]
OUTDIR_SPELLINGS = {}


def fresh_outdir(workdir, tag):
    """A not yet existing output directory.  One in six has a name a temp-dir campaign never produces
    (capitals, blanks, '%', '=', option look-alikes, non-ASCII letters) in the directory itself or its parent."""
    from .engine import HOSTILE_NAMES
    top = os.path.join(workdir, 'gen_%s' % tag)
    shutil.rmtree(top, ignore_errors=True)
    _OUTDIR_CALLS[0] += 1
    k = _OUTDIR_CALLS[0]
    frag = HOSTILE_NAMES[(k // 6) % len(HOSTILE_NAMES)]
    if k % 12 == 8:
        # a RELATIVE name that begins with '~' (not a home directory: it is a directory of that name in the working
        # directory of the run, which run_generator sets to the worker's temporary directory)
        top = os.path.join(tempfile.gettempdir(), '~', 'gen_%s' % tag)      # spelled '~/gen_x/instances'
        shutil.rmtree(top, ignore_errors=True)
        kind, d = 'relative_name_beginning_with_tilde', os.path.join(top, 'instances')
    elif k % 12 == 5:
        kind, d = 'hostile_parent_name', os.path.join(top, frag, 'instances')
    elif k % 12 == 11:
        kind, d = 'hostile_directory_name', os.path.join(top, 'hr' + frag)
    else:
        kind, d = 'plain', os.path.join(top, 'instances')
    OUTDIR_SPELLINGS[kind] = OUTDIR_SPELLINGS.get(kind, 0) + 1
    _TOPS[d] = os.path.join(tempfile.gettempdir(), '~') if kind == 'relative_name_beginning_with_tilde' else top
    return d


_TOPS = {}


def top_of(outdir):
    """The directory fresh_outdir() reserved for this output directory (everything a run creates lies in it)."""
    return _TOPS.get(outdir, os.path.dirname(outdir))
