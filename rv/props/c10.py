"""C10 - the solver reads an instance file as the instance the file denotes."""
import random

from . import lpcommon as lc
from .. import engine as en
from .. import outparse as op
from .. import refmodel as rm
from .. import spec as sp

ID = 'C10'
ANCHOR_FILES = ['solver/fileIO.py', 'solver/model.py']
LEVEL = 'exploration'
NEEDS_DEPS = True
EVAL_COUNTER = 'files_loaded'
RULE = ('random specs (2- and 3-agent, 1..6 students, tie groups at start/middle/end/whole list, empty first- and second-side '
        'lists, zero quotas) are rendered in 3 variants each (different inter-token whitespace, with/without the parameter '
        'block, with/without second-side lists when -twopl is off) and loaded with the real Solver, with and without -twopl; '
        'the documented Model attributes (counts, quota/target lists, proj_lecturers, and for every student the sequence of '
        '(project, student rank, lecturer, lecturer rank)) must equal the spec, ranks must be dense, the regrouped '
        'project/lecturer/rank lists must hold the same pairs, the parsed "Model instance information" block of get_debug() must '
        'agree, one-sided runs must have no lecturer rank and lecturer cost 0, and all variants must give the identical Model; '
        'icontract postcondition on _get_simple_pref_list_and_ranks; non-trivial = spec with >=1 tie group of size >=2; '
        'distinct = distinct (spec, twopl); evaluations = files loaded')
ASSUMPTIONS = ['the documented grammar is the one the generator writes and the shipped Evaluations files use']


def plan(tier):
    return {'cases_per_shard': 500 if tier == 'quick' else 10000,
            'time_cap_s': 90 if tier == 'quick' else 560}


def snap(model):
    d = {'ns': model.num_students, 'np': model.num_projects, 'nl': model.num_lecturers,
         'plq': list(model.proj_lower_quotas), 'puq': list(model.proj_upper_quotas),
         'llq': list(model.lec_lower_quotas), 'lt': list(model.lec_targets), 'luq': list(model.lec_upper_quotas),
         'plec': list(model.proj_lecturers), 'pairs': []}
    for row in model.pairs:
        d['pairs'].append([(p.studentID, p.projectID, p.rank_student, p.lecturerID, getattr(p, 'rank_lecturer', None),
                            p.student_index, p.project_index, p.lecturer_index) for p in row])
    return d


def expected(spec, twopl):
    inst = rm.Inst(spec, twopl)
    d = {'ns': spec['ns'], 'np': spec['np'], 'nl': spec['nl'], 'plq': spec['plq'], 'puq': spec['puq'],
         'llq': spec['llq'], 'lt': spec['lt'], 'luq': spec['luq'], 'plec': spec['plec'], 'pairs': []}
    for s in range(spec['ns']):
        row = []
        for p, r in inst.acc[s]:
            k = spec['plec'][p - 1]
            row.append((s + 1, p, r, k, inst.lrank[(k, s + 1)] if twopl else None, s, p - 1, k - 1))
        d['pairs'].append(row)
    return d


def run_case(cs, ctx):
    lc.contracts_on(ctx)
    from matchingproblems.solver import Solver
    rng = random.Random(cs)
    if cs % 20 == 7:
        spec = sp.make_big_spec(rng)
        ctx.cov('big_two_digit_ids_both_sides')
    elif cs % 100 == 13:
        spec = sp.make_huge_id_spec(rng)
        ctx.cov('three_digit_ids')
    else:
        spec = sp.make_spec(rng, max_s=rng.choice([1, 2, 4, 4, 6]), max_p=rng.choice([1, 3, 4, 6]), max_l=4)
    if cs % 30 == 4 and spec.get('shape') not in ('big', 'huge_ids'):
        # quotas and targets that no double represents exactly (beyond 2**53)
        big = rng.choice([9007199254740993, 99999999999999999, 123456789012345678901])
        k = rng.randrange(spec['nl'])
        spec['luq'][k] = big
        spec['lt'][k] = big if spec['na'] == 2 else rng.choice([big, big - 2, spec['lt'][k]])
        for j in range(spec['np']):
            if spec['plec'][j] == k + 1:
                spec['puq'][j] = big if spec['na'] == 2 else rng.choice([big, big - 4])
        if rng.random() < 0.3 and spec['na'] == 3:
            spec['llq'][k] = min(spec['lt'][k], 9007199254740995)
        ctx.cov('quotas_beyond_2_to_the_53')
    twopl = rng.random() < 0.6
    exp = expected(spec, twopl)
    case = {'cs': cs, 'spec': spec, 'twopl': twopl}
    snaps = []
    for variant in range(3):
        second = True if twopl else (variant != 1)
        exotic = variant == 2 and cs % 7 == 0      # form feed / vertical tab are whitespace for str.split()
        if exotic:
            ctx.cov('exotic_whitespace_variant')
        text = sp.render(spec, rng=rng, second_side=second, noise=variant > 0, info_block=(variant != 2), exotic_ws=exotic)
        path = en.write_file(ctx.workdir, text, 'v%d.txt' % variant)
        argv = ['-f', path, '-na', str(spec['na'])] + (['-twopl'] if twopl else [])
        rel_cwd = None
        if variant == 0 and cs % 10 == 3:
            # the file is named relative to the working directory of the moment; the directory the process was
            # in when the package was imported (the worker's scratch directory) holds ANOTHER file of that name
            import os as _os
            rel_cwd = _os.path.join(ctx.workdir, 'reldir')
            _os.makedirs(rel_cwd, exist_ok=True)
            path = en.write_file(rel_cwd, text, 'v0.txt', plain=True)
            decoy = _os.path.join(ctx.workdir, 'v0.txt')
            if not _os.path.exists(decoy):
                with open(decoy, 'w') as fh:
                    fh.write('1 1\n1: 1\n1: 0: 1: 1\n')
            argv[1] = rng.choice(['v0.txt', './v0.txt', '../reldir/v0.txt'])
            ctx.cov('file_named_relative_to_the_working_directory')
        case['file'] = text
        ctx.cnt('files_loaded')
        faulty = variant == 1 and cs % 25 == 6
        if faulty:
            # failure at a particular point: the first attempt to read the file breaks after k lines (OSError);
            # if the constructor nevertheless returns, the Model must still be the one the file denotes
            import builtins
            import sys as _sys
            import matchingproblems.solver as _ms
            holder = None
            for nm, mod_ in list(_sys.modules.items()):
                if nm.startswith('matchingproblems.solver') and hasattr(mod_, 'import_model') and hasattr(mod_, '_import_from_file'):
                    holder = mod_
            state = {'done': False, 'k': rng.randint(1, max(1, spec['ns'] + spec['np']))}

            class _Faulty:
                def __init__(self, fh):
                    self.fh, self.n = fh, 0

                def __enter__(self):
                    return self

                def __exit__(self, *a):
                    self.fh.close()
                    return False

                def __iter__(self):
                    for line in self.fh:
                        self.n += 1
                        if self.n > state['k']:
                            raise OSError(5, 'injected read error')
                        yield line

                def __getattr__(self, name):
                    return getattr(self.fh, name)

            def opener(p, *a, **k):
                fh = builtins.open(p, *a, **k)
                if not state['done'] and str(p) == path:
                    state['done'] = True
                    return _Faulty(fh)
                return fh
            if holder is not None:
                holder.open = opener
                ctx.cnt('reads_with_an_injected_io_error')
        try:
            import os as _os2
            _cwd = _os2.getcwd()
            try:
                if rel_cwd:
                    _os2.chdir(rel_cwd)
                s = Solver(argv)
            finally:
                _os2.chdir(_cwd)
                if faulty and holder is not None and 'open' in vars(holder):
                    del holder.open
        except OSError as e:
            if faulty:
                ctx.cnt('unobservable_read_error_propagated')
                continue
            ctx.finding(en.F('C10', 'loads', 'Solver(%s) raised %s: %s on a file of the documented grammar' % (
                argv[2:], type(e).__name__, e), exc=en.exc_info(e)), case)
            lc.harvest_contracts(ctx, case)
            return
        except BaseException as e:
            ctx.finding(en.F('C10', 'loads', 'Solver(%s) raised %s: %s on a file of the documented grammar' % (
                argv[2:], type(e).__name__, e), exc=en.exc_info(e) if isinstance(e, Exception) else None), case)
            lc.harvest_contracts(ctx, case)
            return
        got = snap(s.model)
        snaps.append(got)
        for k in ('ns', 'np', 'nl', 'plq', 'puq', 'llq', 'lt', 'luq', 'plec'):
            if got[k] != exp[k]:
                ctx.finding(en.F('C10', 'attributes', 'Model.%s = %s, the file denotes %s' % (k, got[k], exp[k]), key=k), case)
                return
        if got['pairs'] != exp['pairs']:
            bad = next((i for i in range(len(exp['pairs'])) if i >= len(got['pairs']) or got['pairs'][i] != exp['pairs'][i]), None)
            ctx.finding(en.F('C10', 'pairs', 'student %s read as %s (student, project, rank, lecturer, lecturer rank, indices), '
                             'the file denotes %s' % (None if bad is None else bad + 1,
                                                      got['pairs'][bad] if bad is not None and bad < len(got['pairs']) else None,
                                                      exp['pairs'][bad] if bad is not None else None)), case)
            return
        # regrouped lists hold the same Pair objects
        m = s.model
        allp = [p for row in m.pairs for p in row]
        try:
            ok = (sorted(id(p) for l in m.project_lists for p in l) == sorted(id(p) for p in allp) and
                  all(p.project_index == j for j, l in enumerate(m.project_lists) for p in l) and
                  sorted(id(p) for l in m.lecturer_lists for p in l) == sorted(id(p) for p in allp) and
                  all(p.lecturer_index == k for k, l in enumerate(m.lecturer_lists) for p in l) and
                  sorted(id(p) for l in m.rank_lists for p in l) == sorted(id(p) for p in allp) and
                  all(p.rank_student == r + 1 for r, l in enumerate(m.rank_lists) for p in l) and
                  len(m.project_lists) == spec['np'] and len(m.lecturer_lists) == spec['nl'] and
                  len(m.rank_lists) == sp.max_rank(spec))
        except Exception as e:
            ok = False
        ctx.cnt('regrouping_judged')
        if not ok:
            ctx.finding(en.F('C10', 'regrouping', 'project_lists/lecturer_lists/rank_lists are not the regrouping of Model.pairs'), case)
        # debug block and statistics after a plain solve (one variant per case)
        if variant == cs % 3:
            try:
                s.solve()
                dbg = s.get_debug()
                short = s.get_results()
            except Exception as e:
                ctx.cnt('unobservable_solve_or_debug_failed')
                continue
            ctx.cnt('debug_blocks_judged')
            try:
                rows = op.parse_debug(dbg, nrows=spec['ns'])['rows']
                exp_rows = [[(a, b, c, d, e) for (a, b, c, d, e, _, _, _) in row] for row in exp['pairs']]
                if rows != exp_rows:
                    ctx.finding(en.F('C10', 'debug_block', 'Model instance information shows %s, the file denotes %s' % (rows, exp_rows)), case)
            except op.ParseError as e:
                ctx.finding(en.F('C10', 'debug_block', 'Model instance information does not parse: %s' % e), case)
            if not twopl:
                try:
                    st = op.parse_results(short)['stats']
                    if 'cost' in st:
                        ctx.cnt('one_sided_costs_judged')
                        if st['cost'][1] != 0 or st['cost_sq'][1] != 0:
                            ctx.finding(en.F('C10', 'one_sided_lecturer_cost', 'one-sided run prints lecturer cost %s / %s' % (
                                st['cost'], st['cost_sq'])), case)
                except op.ParseError:
                    pass
    if len(snaps) == 3:
        ctx.cnt('metamorphic_triples')
        if not (snaps[0] == snaps[1] == snaps[2]):
            ctx.finding(en.F('C10', 'metamorphic', 'whitespace / parameter block / ignored second-side lists changed the Model'), case)
    groups = [g for l in spec['st'] for g in l] + ([g for l in spec['lec'] for g in l] if twopl else [])
    if any(len(g) >= 2 for g in groups):
        ctx.nontrivial(lc.case_key(spec, [twopl]))
    for l in spec['st']:
        if l and len(l[0]) >= 2:
            ctx.cov('tie_at_start')
        if l and len(l[-1]) >= 2:
            ctx.cov('tie_at_end')
        if len(l) >= 3 and any(len(g) >= 2 for g in l[1:-1]):
            ctx.cov('tie_in_middle')
        if len(l) == 1 and len(l[0]) >= 2:
            ctx.cov('whole_list_tied')
        if not l:
            ctx.cov('empty_first_side_list')
    if any(not l for l in spec['lec']):
        ctx.cov('empty_second_side_list')
    ctx.cov('na%d_%s' % (spec['na'], 'twopl' if twopl else 'onesided'))
    lc.harvest_contracts(ctx, case)
    ctx.sample({'twopl': twopl, 'file_variant_3': case['file']}, cap=2)


def replay(w, ctx):
    run_case(w['case']['cs'], ctx)


def floors(m, tier):
    out = []
    c, cov = m['counters'], m['cover']
    need = 8000 if tier == 'quick' else 200000
    if c.get('files_loaded', 0) < need:
        out.append('only %d files loaded' % c.get('files_loaded', 0))
    for k in ('tie_at_start', 'tie_at_end', 'tie_in_middle', 'whole_list_tied', 'empty_first_side_list', 'empty_second_side_list',
              'na2_twopl', 'na2_onesided', 'na3_twopl', 'na3_onesided'):
        if cov.get(k, 0) < 20:
            out.append('class %s seen %d times' % (k, cov.get(k, 0)))
    if c.get('debug_blocks_judged', 0) < need // 6:
        out.append('only %d debug blocks judged' % c.get('debug_blocks_judged', 0))
    if c.get('contract_evals_contract_errors', 0):
        out.append('%d internal contract errors' % c['contract_evals_contract_errors'])
    return out
