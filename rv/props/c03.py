"""C03 - each optimisation criterion optimises the quantity it documents."""
import random

from . import lpcommon as lc
from .. import spec as sp

ID = 'C03'
ANCHOR_FILES = ['solver/lp_solver.py', 'solver/model.py', 'solver/options_parser.py']
LEVEL = 'exploration'
RULE = ('one criterion per run, cycling through the nine criteria x {plain,-pc,-stab,both} x admissible argument vectors '
        '(defaults by omission) on random small specs; the value is measured by the reference model from the printed '
        'matching line and compared with the optimum over the reference feasible set; each solve is followed by tie-break '
        'injection and its solution is also compared with the reference optimal set of the elementary steps so far; '
        'non-trivial = the criterion discriminates (>=2 distinct values over the feasible set); distinct = distinct '
        '(instance, option set)')
ASSUMPTIONS = ['reference measures in rv/refmodel.py follow the wording of C03 (dense ranks, documented defaults)']
CR = sp.CRITS


def plan(tier):
    return {'cases_per_shard': 450 if tier == 'quick' else 9000,
            'time_cap_s': 90 if tier == 'quick' else 560}


def run_case(cs, ctx):
    quick = ctx.tier == 'quick'
    crit = CR[cs % 9]
    prof = {'name': 'c03', 'spec': {}, 'opts': {'ncrit': 1, 'crit_pool': [crit]},
            'medium_rate': 0.12, 'shipped_rate': 0.02}
    if crit in ('lmb', 'lsb', 'mincostlsb'):
        prof['spec'] = {'na': 3 if (cs // 9) % 3 else 2,
                        'shapes': ['dense', 'big_targets', 'one_lecturer', 'lec_gt_students', 'tight_lecturer', 'lowerq']}
    if crit in ('mincost', 'minsqcost'):
        prof['spec'] = {'shapes': ['dense', 'no_ties', 'lowerq', 'lowerq', 'tight_lecturer', 'one_lecturer']}
        prof['opts'] = dict(prof['opts'], twopl=(cs // 9) % 10 < 7, pc=None if (cs // 9) % 10 < 7 else (cs // 90) % 2 == 0)
        prof['medium_rate'] = 0.4
    if crit in ('mincost', 'minsqcost', 'mincostlsb') and (cs // 9) % 10 >= 8:
        # one-sided, closures allowed, both weights positive, matchings of different sizes whose costs cross
        prof = {'name': 'c03cross', 'spec': {}, 'size_cost_cross': True, 'medium_rate': 0, 'decoy_rate': 0,
                'opts': {'ncrit': 1, 'crit_pool': [crit], 'twopl': (cs // 90) % 3 == 0, 'pc': True, 'stab': False}}
        ctx.cov('size_cost_cross_cases')
    if crit in ('gen', 'gre'):
        prof['spec'] = {'shapes': ['dense', 'long_lists', 'no_ties', 'lowerq', 'tight_lecturer']}
    if prof.get('size_cost_cross'):
        prof['force_extras'] = [(cs // 7) % 2 + 1, [1, 2, 3, 5][(cs // 11) % 4]]
    r = lc.lp_case(cs, ctx, prof, probe_rate=0.08 if quick else 0.3, probe_cap=48 if quick else 160)
    f = r['facts']
    if f.get('status') == 'Optimal' and f.get('enumerable'):
        ctx.cov('judged_' + crit)
        if f.get('discriminates'):
            ctx.cov('discriminating_' + crit)
            ctx.nontrivial(lc.case_key(r['spec'], r['opts']))
        c = r['opts']['crits'][0]
        if c[2]:
            ctx.cov('explicit_args_' + crit)
        elif crit in ('gen', 'gre', 'mincost', 'minsqcost', 'mincostlsb'):
            ctx.cov('default_args_' + crit)
        if r['opts']['stab']:
            ctx.cov('with_stab')
        if r['opts']['pc']:
            ctx.cov('with_pc')
    ctx.sample(lc.brief(r), cap=2)


def replay(w, ctx):
    run_case(w['case']['cs'], ctx)


def floors(m, tier):
    need = 60 if tier == 'quick' else 500
    out = []
    for crit in CR:
        n = m['cover'].get('discriminating_' + crit, 0)
        if n < need:
            out.append('criterion %s discriminated in only %d runs (< %d)' % (crit, n, need))
    return out
