"""Parent process: spawn workers, aggregate, decide the three-valued verdict,
write evidence and witnesses.  Exit 0 held / 1 violation / 2 inconclusive."""
import hashlib
import importlib
import json
import os
import shutil
import subprocess
import sys
import time

VERIF = os.path.dirname(os.path.dirname(os.path.abspath(__file__)))
PY = '/venv/bin/python'
WHEELS = '/opt/veriftools/wheels'
DEPS = os.path.join(VERIF, '.deps')
ALL = ['C%02d' % i for i in range(1, 19)]


def ensure_deps():
    """icontract (+asttokens) beside the repository's interpreter, offline."""
    if os.path.isdir(os.path.join(DEPS, 'icontract')):
        return True
    os.makedirs(DEPS, exist_ok=True)
    env = dict(os.environ, PIP_NO_INDEX='1', PIP_DISABLE_PIP_VERSION_CHECK='1')
    r = subprocess.run([PY, '-m', 'pip', 'install', '--quiet', '--no-index', '--find-links', WHEELS,
                        '--target', DEPS, 'icontract'], env=env, capture_output=True, text=True)
    return r.returncode == 0 and os.path.isdir(os.path.join(DEPS, 'icontract'))


def load_known():
    p = os.path.join(VERIF, 'known_findings.json')
    if not os.path.exists(p):
        return []
    return json.load(open(p)).get('findings', [])


def worker_env():
    env = dict(os.environ)
    env['PYTHONDONTWRITEBYTECODE'] = '1'
    env['PYTHONHASHSEED'] = '0'
    env['MATCHINGPROBLEMS_VERIF'] = '1'
    env['PYTHONPATH'] = VERIF
    env.setdefault('VERIF_REPO', '/repo')
    return env


def run_workers(prop, tier, seed, nshards, watchdog_s, replay=None):
    work = os.path.join(VERIF, '.work', prop)
    shutil.rmtree(work, ignore_errors=True)
    os.makedirs(work, exist_ok=True)
    # scratch directories that killed workers left on the other file system (older than three hours)
    try:
        for d in os.listdir('/dev/shm'):
            p = os.path.join('/dev/shm', d)
            if d.startswith('rv_tmp_') and time.time() - os.stat(p).st_mtime > 3 * 3600:
                shutil.rmtree(p, ignore_errors=True)
    except OSError:
        pass
    procs = []
    renv = {}
    if replay:
        try:
            renv = json.load(open(replay)).get('env') or {}
        except Exception:
            renv = {}
    for i in range(nshards):
        out = os.path.join(work, 'shard_%d.json' % i)
        # every fourth worker runs with asserts compiled out (python -O); a replay runs in the process
        # environment of the worker that made the observation
        opt = bool(renv.get('optimize')) if replay else (i % 4 == 3)
        cmd = [PY] + (['-O'] if opt else []) + ['-m', 'rv.worker', prop, '--tier', tier, '--seed', str(seed),
                                                                          '--shard', str(i), '--nshards', str(nshards), '--out', out]
        if replay:
            cmd += ['--replay', replay]
        log = open(os.path.join(work, 'shard_%d.log' % i), 'w')
        env = worker_env()
        # process environment varies per shard: local time zone east / west of UTC / UTC
        env['TZ'] = ['UTC', 'JST-9', 'PST8PDT', 'UTC', 'CET-1CEST'][i % 5]
        if i % 4 == 2:
            env['LC_ALL'] = 'de_DE.UTF-8'      # a locale this machine does not have
            env['LANG'] = 'de_DE.UTF-8'
        # string hashing (set / dict-of-str iteration order) differs per worker, reproducibly
        env['PYTHONHASHSEED'] = str(i)
        if replay:
            for k in ('TZ', 'LC_ALL', 'LANG', 'PYTHONHASHSEED'):
                if renv.get(k) is not None:
                    env[k] = str(renv[k])
                elif k in ('LC_ALL', 'LANG') and renv:
                    env.pop(k, None)
            if renv.get('shard_class') == 1:
                env['RV_TMPDIR_OTHER_DEVICE'] = '1'
                env['RV_WARNINGS_AS_ERRORS'] = '1'
        procs.append((subprocess.Popen(cmd, cwd=VERIF, env=env, stdout=log, stderr=subprocess.STDOUT), out, log))
    results, problems = [], []
    deadline = time.time() + watchdog_s
    for p, out, log in procs:
        try:
            p.wait(timeout=max(1, deadline - time.time()))
        except subprocess.TimeoutExpired:
            p.kill()
            p.wait()
            problems.append('watchdog fired after %ds' % watchdog_s)
        log.close()
        if os.path.exists(out):
            try:
                r = json.load(open(out))
            except Exception as e:
                problems.append('unreadable worker result: %s' % e)
                continue
            if r.get('crash'):
                if not any(p.startswith('worker crashed') for p in problems):
                    sys.stderr.write(r['crash'][-1500:] + '\n')
                problems.append('worker crashed: ' + r['crash'].strip().split('\n')[-1][:300])
            else:
                results.append(r)
        else:
            problems.append('worker wrote no result (exit %s)' % p.returncode)
    return results, problems


def merge(results):
    m = {'counters': {}, 'cover': {}, 'samples': [], 'distinct': set(), 'violations': [],
         'foreign': {}, 'notes': [], 'wall_s': 0.0, 'reach': set()}
    for r in results:
        m['reach'].update(r.get('reach') or [])
        for k in ('counters', 'cover', 'foreign'):
            for a, b in r.get(k, {}).items():
                if isinstance(b, (int, float)):
                    m[k][a] = m[k].get(a, 0) + b
        m['samples'].extend(r.get('samples', [])[:2])
        m['distinct'].update(r.get('distinct', []))
        m['violations'].extend(r.get('violations', []))
        m['notes'].extend(r.get('notes', []))
        m['wall_s'] = max(m['wall_s'], r.get('wall_s', 0))
    m['samples'] = m['samples'][:6]
    return m


def classify(prop, viol, known):
    from . import known as K
    for k in known:
        if k.get('status') != 'known' or k.get('property') != prop:
            continue
        fn = K.CLASSIFIERS.get(k.get('classifier'))
        if fn is not None:
            try:
                if fn(viol):
                    return k
            except Exception:
                pass
    return None


def check(prop, tier, seed):
    t0 = time.time()
    mod = importlib.import_module('rv.props.' + prop.lower())
    nshards = int(os.environ.get('VERIF_JOBS', '16'))
    nshards = max(1, min(nshards, getattr(mod, 'MAX_SHARDS', 16)))
    plan = mod.plan(tier)
    watchdog = plan.get('watchdog_s', plan['time_cap_s'] * 3 + 120)
    if getattr(mod, 'NEEDS_DEPS', False) and not ensure_deps():
        print('INCONCLUSIVE property=%s reason=icontract could not be installed from %s' % (prop, WHEELS))
        return 2
    results, problems = run_workers(prop, tier, seed, nshards, watchdog)
    m = merge(results)
    known = load_known()
    unlisted, listed = [], {}
    for v in m['violations']:
        k = classify(prop, v, known)
        if k is None:
            unlisted.append(v)
        else:
            listed.setdefault(k['id'], (k, []))[1].append(v)
    reasons = list(dict.fromkeys(problems))
    reasons += mod.floors(m, tier)
    if m['counters'].get('case_watchdog_fired', 0):
        reasons.append('%d cases exceeded the per-case watchdog (a watchdog is never a verdict)' % m['counters']['case_watchdog_fired'])
    if m['counters'].get('shard_aborted_by_harness_error', 0):
        reasons.append('%d shards aborted by a harness error: %s' % (m['counters']['shard_aborted_by_harness_error'], next(
            (n['harness_error'].strip().split('\n')[-1] for n in m['notes'] if 'harness_error' in n), '?')))
    he = m['counters'].get('harness_errors', 0)
    if he > max(3, 0.01 * m['counters'].get('cases', 0)):
        reasons.append('%d harness errors (monitors could not cope with the observed behaviour); first: %s' % (
            he, next((n['harness_error'].strip().split('\n')[-1] for n in m['notes'] if 'harness_error' in n), '?')))
    # evidence
    cov = dict(getattr(mod, 'coverage_extra', lambda m, t: {})(m, tier))
    cov.update({
        'evaluations': int(m['counters'].get(getattr(mod, 'EVAL_COUNTER', 'cases'), 0)),
        'distinct_nontrivial': len(m['distinct']),
        'rule': mod.RULE,
        'samples': m['samples'] or [{'note': 'no sample recorded'}],
        'counters': dict(sorted(m['counters'].items())),
        'monitor_cover': dict(sorted(m['cover'].items())),
        'other_properties_findings_ignored_here': m['foreign'],
        'workers': len(results), 'inconclusive_reasons': reasons,
        'known_findings_matched': {k: len(v[1]) for k, v in listed.items()},
        'repo': os.environ.get('VERIF_REPO', '/repo'),
        'functions_reached': sorted(m['reach']),
        'functions_reached_in_anchor_files': {f: sum(1 for x in m['reach'] if x.startswith(f + ':'))
                                              for f in getattr(mod, 'ANCHOR_FILES', [])},
    })
    # reach is evidence, not a verdict: a reorganisation may legitimately empty an anchored file; only a run
    # that entered NO function of the package at all is inconclusive
    if m['reach'] is not None and results and not m['reach']:
        reasons.append('no function of the package under test was entered')
    if getattr(mod, 'EXHAUSTIVE', False):
        cov['exhaustive'] = True
    ev = {'property_id': prop, 'tier': tier, 'seed': seed, 'level': mod.LEVEL, 'coverage': cov,
          'assumptions': getattr(mod, 'ASSUMPTIONS', []), 'wall_s': round(time.time() - t0, 2),
          'violations': len(unlisted)}
    os.makedirs(os.path.join(VERIF, 'evidence'), exist_ok=True)
    with open(os.path.join(VERIF, 'evidence', prop + '.json'), 'w') as f:
        json.dump(ev, f, indent=1, default=str)
    # report
    print('%s tier=%s seed=%d: %d evaluations, %d distinct non-trivial, %d workers, %.1fs' % (
        prop, tier, seed, cov['evaluations'], cov['distinct_nontrivial'], len(results), time.time() - t0))
    keys = getattr(mod, 'REPORT_COUNTERS', None)
    shown = {k: v for k, v in m['counters'].items() if keys is None or k in keys}
    print('  observed: ' + ', '.join('%s=%s' % kv for kv in sorted(shown.items())))
    if m['cover']:
        print('  monitor cover: ' + ', '.join('%s=%s' % kv for kv in sorted(m['cover'].items())))
    for kid, (k, vs) in listed.items():
        print('KNOWN-FINDING: property=%s %s (%d occurrences this run; %s)' % (prop, k['what'], len(vs), kid))
    if unlisted:
        rdir = os.path.join(VERIF, 'replays', prop)
        os.makedirs(rdir, exist_ok=True)
        seen = set()
        for v in unlisted[:25]:
            sha = hashlib.sha1(json.dumps(v, sort_keys=True, default=str).encode()).hexdigest()[:16]
            if sha in seen:
                continue
            seen.add(sha)
            path = os.path.join(rdir, sha + '.json')
            v = dict(v, property=prop, tier=tier)
            with open(path, 'w') as f:
                json.dump(v, f, indent=1, default=str)
            print('VIOLATION property=%s replay=%s' % (prop, path))
            print('  [%s] %s' % (v['monitor'], v['msg'][:400]))
        return 1
    if reasons:
        print('INCONCLUSIVE property=%s reason=%s' % (prop, ' | '.join(reasons)[:1500]))
        return 2
    print('HELD property=%s on everything observed' % prop)
    return 0


def replay(path):
    w = json.load(open(path))
    prop = w['property']
    mod = importlib.import_module('rv.props.' + prop.lower())
    if getattr(mod, 'NEEDS_DEPS', False):
        ensure_deps()
    results, problems = run_workers(prop, w.get('tier', 'quick'), 0, 1, 600, replay=os.path.abspath(path))
    if problems or not results:
        print('INCONCLUSIVE property=%s reason=%s' % (prop, problems))
        return 2
    vs = results[0]['violations']
    known = load_known()
    vs_un = [v for v in vs if classify(prop, v, known) is None]
    for v in vs:
        print('  [%s] %s' % (v['monitor'], v['msg'][:600]))
    if vs_un:
        print('VIOLATION property=%s replay=%s' % (prop, path))
        return 1
    if vs:
        print('KNOWN-FINDING: property=%s reproduced' % prop)
        return 0
    print('replay: no violation reproduced on the current tree')
    return 0


def main(argv):
    if not argv:
        print('usage: vcheck setup | Cxx [--tier quick|thorough] | replay <path> | selftest [...]')
        return 2
    cmd = argv[0]
    if cmd == 'setup':
        ok = ensure_deps()
        for d in ('evidence', 'replays', '.work'):
            os.makedirs(os.path.join(VERIF, d), exist_ok=True)
        print('setup: icontract %s' % ('installed in .deps' if ok else 'NOT available'))
        return 0 if ok else 1
    if cmd == 'replay':
        return replay(argv[1])
    if cmd == 'contracts-on-tests':
        if not ensure_deps():
            print('icontract not available')
            return 2
        repo = os.environ.get('VERIF_REPO', '/repo')
        env = dict(worker_env(), PYTHONPATH=VERIF + os.pathsep + repo + os.pathsep + DEPS)
        r = subprocess.run([PY, '-m', 'pytest', '-q', '-p', 'no:cacheprovider', '-p', 'rv.pytest_contracts', 'test'], cwd=repo, env=env)
        return r.returncode
    if cmd == 'refcheck':
        from . import refcheck
        return refcheck.main(argv[1:])
    if cmd == 'selftest':
        from . import selftest
        return selftest.main(argv[1:])
    prop = cmd.upper()
    if prop not in ALL:
        print('unknown property %r' % cmd)
        return 2
    tier = os.environ.get('VERIF_TIER', 'quick')
    if '--tier' in argv:
        tier = argv[argv.index('--tier') + 1]
    seed = int(os.environ.get('VERIF_SEED', '0') or 0)
    return check(prop, tier, seed)


if __name__ == '__main__':
    sys.exit(main(sys.argv[1:]))
