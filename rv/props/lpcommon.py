"""Shared driver for the properties decided on LP executions (C01-C05, C11)."""
import os
import random

from .. import engine as en
from .. import refmodel as rm
from .. import spec as sp


_SHIPPED = None


def shipped_specs():
    """The 20 instance files shipped under <repo>/Evaluations, read by the strict parser."""
    global _SHIPPED
    if _SHIPPED is None:
        import glob
        import os
        from .. import loader, outparse
        _SHIPPED = []
        for setname, na in (('hr', 2), ('spa', 3), ('spa_no_lq', 3), ('spa_onesided', 3)):
            for p in sorted(glob.glob(os.path.join(loader.REPO, 'Evaluations', setname, 'instances', '*.txt'))):
                try:
                    spec, _ = outparse.parse_instance_file(open(p).read(), na)
                    spec['shape'] = 'shipped'
                    spec['two_sided_possible'] = any(spec['lec'])
                    _SHIPPED.append(spec)
                except Exception:
                    pass
    return _SHIPPED


def build_case(cs, profile):
    rng = random.Random(cs)
    if profile.get('shipped_rate') and rng.random() < profile['shipped_rate'] * profile.get('_large_scale', 1.0) * 0.6 and shipped_specs():
        spec = dict(rng.choice(shipped_specs()))
        okw = dict(profile.get('opts', {}))
        ncrit_choices = okw.pop('ncrit_choices', None)
        if ncrit_choices:
            okw['ncrit'] = rng.choice(ncrit_choices)
        if not spec['two_sided_possible']:
            if okw.get('twopl') or okw.get('stab'):
                spec = dict(rng.choice([s for s in shipped_specs() if s['two_sided_possible']]))
            else:
                okw['twopl'] = False
        opts = sp.make_opts(rng, spec, **okw)
        return rng, spec, opts
    kw = dict(profile.get('spec', {}))
    shapes = kw.pop('shapes', None)
    if shapes:
        kw['shape'] = rng.choice(shapes)
    if profile.get('medium_rate') and rng.random() < profile['medium_rate']:
        kw.update(max_s=6, max_p=4, max_l=3, min_s=4)
    if profile.get('large_rate') and rng.random() < profile['large_rate'] * profile.get('_large_scale', 1.0):
        # too large to enumerate: judged by the output oracles only (validity, stability, statistics)
        kw.update(max_s=25, max_p=14, max_l=6, min_s=12, max_list=4)
        kw['shape'] = rng.choice(['dense', 'lowerq', 'tight_lecturer', 'no_ties', 'dense'])
    spec = sp.make_spec(rng, **kw)
    fam = rng.random()
    hr_ = profile.get('huge_ids_rate', 0.012)
    if fam < hr_:
        spec = sp.make_huge_id_spec(rng)          # project / lecturer ids 258..600
    elif fam < hr_ + 0.012:
        spec = sp.make_huge_id_hr_spec(rng)       # hospital ids 258..300
    elif fam < hr_ + 0.038:
        spec = sp.make_long_list_spec(rng)        # ranks 10..13
    elif fam < hr_ + 0.046:
        spec = sp.make_zero_student_spec(rng)     # the header announces 0 students
    elif fam < hr_ + 0.066:
        spec = sp.make_eleven_spec(rng)           # 11-12 students x 11-12 projects, short lists
    if profile.get('size_cost_cross'):
        spec = sp.make_size_cost_cross_spec(rng)
    if profile.get('big_quota'):
        big = 99999999999999999
        k = rng.randrange(spec['nl'])
        spec['luq'][k] = big
        spec['lt'][k] = rng.choice([big, big - 1, spec['lt'][k]])
        for j in range(spec['np']):
            if spec['plec'][j] == k + 1:
                spec['puq'][j] = big
        if spec['na'] == 2:
            spec['lt'][k] = big      # hospitals: target = upper quota
    okw = dict(profile.get('opts', {}))
    ncrit_choices = okw.pop('ncrit_choices', None)
    if ncrit_choices:
        okw['ncrit'] = rng.choice(ncrit_choices)
    if spec['na'] == 2 and okw.get('twopl') is None and rng.random() < 0.25:
        okw['twopl'] = False      # HA-style one-sided run
    if spec.get('shape') == 'eleven' and okw.get('stab') is None and okw.get('twopl') is not False and rng.random() < 0.7:
        okw['twopl'], okw['stab'] = True, True
    opts = sp.make_opts(rng, spec, **okw)
    if profile.get('bounds_stress'):
        name = rng.choice(['mincost', 'minsqcost', 'mincostlsb', 'lsb', 'lmb', 'minsqcost', 'mincost'])
        ex_ = [] if name in ('lsb', 'lmb') else [rng.choice([0, 1, 2]), rng.choice([1, 1, 2, 3, 10])]
        opts['crits'] = [['maxsize', 1, []], [name, rng.randint(2, 9), ex_]]
    if profile.get('big_first'):
        name = rng.choice(['mincost', 'minsqcost', 'mincostlsb'])
        rest = [c for c in opts['crits'] if c[0] != name][:2]
        opts['crits'] = [[name, 1, [rng.choice([10000, 25000, 123457]), rng.choice([0, 1, 10000])]]] + [
            [c[0], i + 2, c[2]] for i, c in enumerate(rest)]
    if profile.get('force_extras') and opts['crits']:
        opts['crits'][0][2] = list(profile['force_extras'])
    return rng, spec, opts


SOLVER_DEPENDENT = ('optimal_value', 'trace_prefix_optimal', 'status_vs_reference', 'pin_probe', 'reported_stable',
                    'valid_matching', 'flag_permutation')


def lp_case(cs, ctx, profile, probe_rate=0.0, probe_cap=64, _confirm=False):
    if ctx.tier == 'quick':
        profile = dict(profile, _large_scale=0.35)     # large instances are slow: fewer of them in the quick tier
    rng, spec, opts = build_case(cs, profile)
    ref = en.reference(spec, opts)
    if spec.get('shape') == 'shipped':
        ctx.cnt('shipped_evaluation_instances')
    if spec['ns'] >= 10:
        ctx.cnt('instances_with_10_or_more_students')
    if spec.get('shape') in ('huge_ids', 'huge_ids_hr', 'long_list', 'zero_students', 'eleven'):
        ctx.cov('family_' + spec['shape'])
    decoy_argv = None
    decoy_text = None
    if rng.random() < profile.get('decoy_rate', 0.06):
        d = sp.make_opts(rng, spec, twopl=opts['twopl'] if rng.random() < 0.7 else None)
        decoy_argv = ['-na', str(spec['na'])] + sp.opts_to_argv(d, rng)
        ctx.cnt('runs_with_a_second_live_solver_object')
        if rng.random() < 0.5:
            # the other object works on ANOTHER instance (two-sided, usually with -stab): it is solved and asked for
            # its results between this object's solve and this object's getters
            other = sp.make_spec(random.Random(cs ^ 0x7171), na=spec['na'])
            d = sp.make_opts(rng, other, twopl=True, stab=rng.random() < 0.8)
            decoy_argv = ['-na', str(other['na'])] + sp.opts_to_argv(d, rng)
            decoy_text = sp.render(other, rng=random.Random(cs), second_side=True, noise=False)
            ctx.cnt('runs_with_a_second_live_solver_object_on_another_instance')
    stale_text = None
    if (not _confirm) and rng.random() < 0.03:
        other = sp.make_spec(random.Random(cs ^ 0x4242), na=spec['na'])
        stale_text = sp.render(other, rng=random.Random(cs), second_side=True, noise=False)
        ctx.cnt('runs_after_a_same_size_same_second_rewrite_of_the_path')
    verbose_first = (not _confirm) and rng.random() < 0.04
    if verbose_first:
        ctx.cnt('first_solve_with_msg_true_then_resolve')
    skw = {'msg': True} if verbose_first else {}
    cwd = None
    r_kw = rng.random()
    if (not _confirm) and r_kw < 0.03:
        skw['threads'] = 2                       # documented keyword of solve(); must not change any answer
        ctx.cnt('solves_with_threads_2')
    elif (not _confirm) and r_kw < 0.06:
        skw['write'] = True                      # documented keyword: model.lp is written to the working directory
        cwd = os.path.join(ctx.workdir, 'lpwrite')
        os.makedirs(cwd, exist_ok=True)
        ctx.cnt('solves_with_write_true')
    ex = en.run_lp(spec, opts, ctx.workdir, rng, inject=profile.get('inject', True), decoy_argv=decoy_argv,
                   cbc_options=['preprocess off'] if _confirm else None,
                   solve_kwargs=skw or None, cwd=cwd, stale_text=stale_text, decoy_text=decoy_text)
    do_probe = ref['enumerable'] and rng.random() < probe_rate
    cnt = {}
    findings, facts = en.judge_lp(ex, ref, probe_cap=probe_cap if do_probe else 0,
                                  probe_rng=random.Random(cs ^ 0x5bd1), counters=cnt)
    for k, v in cnt.items():
        ctx.cnt(k, v)
    inj = ex.get('inj') or {}
    for k, v in inj.items():
        ctx.cnt('tiebreak_' + k, v)
    ctx.cnt('solves_observed', len(ex['events']))
    case = {'cs': cs, 'profile': profile['name'], 'spec': spec, 'opts': opts}
    case.update(en.light(ex))
    if _confirm:
        return {'findings': findings}
    own = [f for f in findings if f['prop'] == ctx.prop and f['monitor'] in SOLVER_DEPENDENT]
    if own:
        # second opinion: CBC's integer preprocessing has been seen to return wrong answers (an infeasible or a
        # suboptimal point with status Optimal); an alarm that depends on what the back end returned must
        # reproduce with preprocessing off, otherwise it is counted as a back-end fault, not a violation
        again = lp_case(cs, ctx, profile, probe_rate=1.0 if any(f['monitor'] == 'pin_probe' for f in own) else 0.0,
                        probe_cap=probe_cap, _confirm=True)
        confirmed = {(f['prop'], f['monitor']) for f in again['findings']}
        kept = []
        for f in findings:
            if f in own and (f['prop'], f['monitor']) not in confirmed:
                ctx.cnt('alarms_not_reproduced_with_cbc_preprocessing_off')
                continue
            kept.append(f)
        findings = kept
    for f in findings:
        ctx.finding(f, case)
    # second solve() on the same Solver object: every output oracle must hold again
    if (profile.get('resolve_rate', 0.05) and (verbose_first or rng.random() < profile.get('resolve_rate', 0.05)) and ex['solver'] is not None
            and ex['exc'] is None and not facts.get('backend_fault')):
        from ..taps import TAP
        s = ex['solver']
        TAP.reset()
        TAP.install()
        TAP.inject_rng = random.Random(cs ^ 0x99)
        TAP.snapshot = en.snapshot_fn(s)
        ex2 = dict(ex, exc=None, short=None, long=None, debug=None, events=[])
        try:
            s.solve()
            ex2['events'] = list(TAP.events)
            ex2['prob'] = TAP.probs[-1] if TAP.probs else None
            TAP.enabled = False
            ex2['short'] = s.get_results()
            ex2['long'] = s.get_results_long()
        except Exception as e:
            ex2['exc'] = dict(en.exc_info(e), phase='solve')
        finally:
            TAP.enabled = False
        cnt2 = {}
        f2, _ = en.judge_lp(ex2, ref, counters=cnt2)
        ctx.cnt('second_solves_judged')
        for f in f2:
            ctx.finding(dict(f, monitor=f['monitor'] + '_after_resolve', msg='after a second solve() on the same object: ' + f['msg']), case)
    return {'spec': spec, 'opts': opts, 'ex': ex, 'ref': ref, 'facts': facts,
            'findings': findings, 'case': case, 'rng': rng}


def case_key(spec, opts):
    return sp.shash([spec['st'], spec['plq'], spec['puq'], spec['plec'], spec['llq'], spec['lt'],
                     spec['luq'], spec['lec'], spec['na'], opts])


def brief(r):
    ex = r['ex']
    return {'argv': r['case']['argv'], 'file': ex['text'],
            'status': r['facts'].get('status'),
            'result_head': (ex['short'] or '')[-330:],
            'n_solves': len(ex['events']),
            'reference_feasible': r['facts'].get('n_feasible')}


def contracts_on(ctx):
    """Install the icontract monitors once per worker."""
    from .. import contracts
    if not getattr(ctx, '_contracts', None):
        ctx._contracts = contracts.install_all()
        ctx.notes.append({'contracts': ctx._contracts})
    return contracts


def harvest_contracts(ctx, case):
    from .. import contracts
    for f in contracts.drain():
        ctx.finding(f, case)
    for k, v in contracts.EVALS.items():
        ctx.counters['contract_evals_' + k] = v
