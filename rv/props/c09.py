"""C09 - every generated instance is solvable by the solver under the documented flags."""
import os
import random

from . import lpcommon as lc
from . import c10
from .. import engine as en
from .. import genengine as ge
from .. import outparse as op
from .. import refmodel as rm
from .. import spec as sp

ID = 'C09'
ANCHOR_FILES = ['generator/generator_ha_sm_hr.py', 'generator/generator_spa.py', 'solver/fileIO.py', 'solver/solver.py']
LEVEL = 'exploration'
NEEDS_DEPS = True
EVAL_COUNTER = 'solver_runs'
RULE = ('pipeline Generator(args) -> for each file -> Solver([-f file -na 2|3] + [-twopl iff generated two-sided] + options): all '
        'four types, accepted parameter vectors sized so the reference can enumerate (n1 <= 6, pmax <= 3; zero-capacity lecturers '
        'included), harness-seeded RNGs; monitors: no exception anywhere; the Model the solver built equals the spec the strict '
        'parser reads from the same file; the LP result is correct (valid matching by the reference when Optimal, status matches '
        'reference feasibility, stable and stability_correct True under -stab on two-sided files); about 60% of the files small enough are also run '
        'with -bf and compared with the reference summary; non-trivial = distinct (type, parameters, file, option set) with a '
        'feasible outcome (infeasible ones are counted and floored separately); evaluations = solver runs')
ASSUMPTIONS = ['strict instance-file parser in rv/outparse.py', 'reference model in rv/refmodel.py']
OWN = {('C01', 'valid_matching'), ('C02', 'no_exception'), ('C02', 'status_vs_reference'), ('C02', 'matching_iff_optimal'),
       ('C05', 'reported_stable'), ('C06', 'stability_correct_line'), ('C11', 'parse_short'), ('C11', 'parse_long')}


def plan(tier):
    return {'cases_per_shard': 110 if tier == 'quick' else 2200,
            'time_cap_s': 90 if tier == 'quick' else 560}


def run_case(cs, ctx):
    lc.contracts_on(ctx)
    from matchingproblems.solver import Solver
    rng = random.Random(cs)
    mp = ['ha', 'sm', 'hr', 'spa', 'spa'][cs % 5]
    v = ge.legal_vector(rng, mp=mp, max_n1=6, max_n2=5, max_n3=4)
    if rng.random() < 0.5:
        # README-like tight shape: many students per place, targets below the maximum size
        v['n1'] = rng.randint(4, 6)
        if mp != 'sm':
            v['n2'] = rng.randint(3, 4)
            v['uq'] = v['n2'] + rng.choice([0, 1, 1, 2])
            v['lq'] = rng.choice([None, 0, 1, 2])
        v['pmin'] = rng.randint(1, 2)
        v['pmax'] = 3
        if mp == 'spa':
            v['n3'] = rng.randint(2, 3)
            v['luq'] = rng.randint(max(1, v['n1'] - 2), v['n1'] + 1)
            v['lt'] = rng.randint(1, v['luq'])
            v['llq'] = rng.choice([None, 0, 1]) if v['lt'] >= 1 else None
    n2 = v['n1'] if mp == 'sm' else v['n2']
    v['pmax'] = min(v['pmax'], 3)
    v['pmin'] = min(v['pmin'], v['pmax'])
    v['numinst'] = rng.randint(1, 2)
    if mp != 'sm' and rng.random() < 0.5:
        v['lq'] = rng.choice([0, 1, rng.randint(0, min(v['uq'], v['n1']))])
    outdir = ge.fresh_outdir(ctx.workdir, 'c09')
    if cs % 10 == 9:
        # the generator and the solver must agree on where a file lives, whatever the directory is called
        import os as _os
        outdir = _os.path.join(_os.path.dirname(outdir), '$HOME', '${USER}x')
        ctx.cov('path_with_dollar_sign_components')
    argv = ge.to_argv(v, outdir, rng)
    case = {'cs': cs, 'vector': v, 'gen_argv': [a if a != outdir else '<outdir>' for a in argv]}
    res = ge.run_generator(argv, cs)
    ctx.cnt('generator_runs')
    if res['exit'] is not None or res['exc'] is not None:
        ctx.finding(en.F('C09', 'generator_runs', '%s: accepted parameter vector did not generate: exit=%r exc=%r' % (
            mp, res['exit'], res['exc']), exc=res['exc'], mp=mp), case)
        return
    na = ge.NA[mp]
    twopl = bool(v.get('twopl'))
    for n in ge.list_outputs(outdir) or []:
        path = os.path.join(outdir, n)
        text = open(path).read()
        c2 = dict(case, file=text)
        try:
            spec, _ = op.parse_instance_file(text, na)
        except op.ParseError as e:
            ctx.finding(en.F('C09', 'file_parses', '%s/%s does not parse: %s' % (mp, n, e)), c2)
            continue
        spec['shape'] = 'generated_' + mp
        ctx.cnt('files')
        ctx.cov('type_%s_%s' % (mp, 'two' if twopl else 'one'))
        # (1) reading agrees with the file
        try:
            s = Solver(['-f', path, '-na', str(na)] + (['-twopl'] if twopl else []))
            got = c10.snap(s.model)
            exp = c10.expected(spec, twopl)
            ctx.cnt('models_compared')
            if got != exp:
                key = next((k for k in exp if got.get(k) != exp[k]), None)
                ctx.finding(en.F('C09', 'reading_agrees', '%s/%s: Model.%s = %s, the file says %s' % (mp, n, key, got.get(key), exp[key])), c2)
        except BaseException as e:
            ctx.finding(en.F('C09', 'loads', '%s/%s: Solver raised %s: %s' % (mp, n, type(e).__name__, e),
                             exc=en.exc_info(e) if isinstance(e, Exception) else None, mp=mp), c2)
            continue
        # (2) LP mode
        opts = sp.make_opts(rng, spec, twopl=twopl, stab=(twopl and rng.random() < 0.5))
        ref = en.reference(spec, opts)
        decoy_argv = None
        if rng.random() < 0.1:
            d = sp.make_opts(rng, spec, twopl=twopl)
            decoy_argv = ['-na', str(na)] + sp.opts_to_argv(d, rng)
            ctx.cnt('runs_with_a_second_live_solver_object')
        ex = en.run_lp(spec, opts, ctx.workdir, rng, inject=True, text=text, decoy_argv=decoy_argv)
        ctx.cnt('solver_runs')
        cnt = {}
        findings, facts = en.judge_lp(ex, ref, counters=cnt)
        for k, x in cnt.items():
            ctx.cnt(k, x)
        c3 = dict(c2, solver_argv=en.light(ex)['argv'], short=ex['short'], exc=ex['exc'])
        for f in findings:
            if (f['prop'], f['monitor']) in OWN:
                g = dict(f, prop='C09', monitor='lp_' + f['monitor'], msg='%s/%s: %s' % (mp, n, f['msg']), mp=mp)
                ctx.finding(g, c3)
            else:
                ctx.finding(f, c3)
        if facts.get('status') == 'Optimal':
            ctx.cov('lp_feasible')
            ctx.nontrivial(sp.shash([text, opts]))
        elif facts.get('status') == 'Infeasible':
            ctx.cov('lp_infeasible')
        if opts['stab']:
            ctx.cov('lp_with_stab')
        if any(u == 0 for u in spec['luq']):
            ctx.cov('zero_capacity_lecturer')
        # (3) brute force
        if rng.random() < 0.6 and (spec['np'] + 1) ** spec['ns'] <= 16000:
            pc = rng.random() < 0.3
            o = {'twopl': twopl, 'pc': pc, 'stab': False, 'crits': [], 'bf': True}
            a = ['-f', path, '-na', str(na)] + sp.opts_to_argv(o, rng)
            ctx.cnt('solver_runs')
            ctx.cnt('bf_runs')
            try:
                b = Solver(a)
                b.solve()
                out = b.get_results()
                gotbf = op.parse_bf(out)
                expbf = rm.bf_summary(rm.Inst(spec, twopl), pc)
                if gotbf['infeasible'] != (expbf is None):
                    ctx.finding(en.F('C09', 'bf_verdict', '%s/%s: -bf prints %s, reference has %s valid matchings' % (
                        mp, n, 'Infeasible' if gotbf['infeasible'] else 'a summary', 0 if expbf is None else expbf['n_valid'])), c2)
                elif expbf is not None:
                    ctx.cov('bf_feasible')
                    bad = [k for k in op.BF_KEYS if list(_l(gotbf['vals'][k])) != list(_l(expbf[k]))]
                    if bad:
                        ctx.finding(en.F('C09', 'bf_summary', '%s/%s: -bf prints %s = %s, reference %s' % (
                            mp, n, bad[0], gotbf['vals'][bad[0]], expbf[bad[0]])), c2)
                else:
                    ctx.cov('bf_infeasible')
            except op.ParseError as e:
                ctx.finding(en.F('C09', 'bf_parse', '%s/%s: -bf output does not parse: %s' % (mp, n, e)), c2)
            except BaseException as e:
                ctx.finding(en.F('C09', 'bf_runs', '%s/%s: -bf raised %s: %s' % (mp, n, type(e).__name__, e),
                                 exc=en.exc_info(e) if isinstance(e, Exception) else None, mp=mp), c2)
        # (4) the documented two-program workflow: the file written by THIS process is solved by ANOTHER interpreter
        #     (its own string-hash seed, nothing shared but the file)
        if cs % 25 == 3 and n == '0.txt' and facts.get('status') in ('Optimal', 'Infeasible'):
            import subprocess
            import sys as _sys
            from .. import loader
            a = ['-f', path, '-na', str(na)] + sp.opts_to_argv(opts, random.Random(cs))
            code = ('import sys\nfrom matchingproblems.solver import Solver\ns = Solver(sys.argv[1:])\ns.solve()\n'
                    'print(s.get_results())\n')
            env = dict(os.environ, PYTHONPATH=loader.REPO, PYTHONHASHSEED=str(100 + cs % 50), PYTHONDONTWRITEBYTECODE='1')
            ctx.cnt('files_solved_by_a_separate_interpreter')
            try:
                r = subprocess.run([_sys.executable, '-c', code] + a, env=env, capture_output=True, text=True, timeout=120,
                                   cwd=ctx.workdir)
                st = [l.split(':', 1)[1].strip() for l in r.stdout.split('\n') if l.startswith('pulp_status')]
                if r.returncode != 0 or not st:
                    ctx.finding(en.F('C09', 'separate_process', '%s/%s: a separate interpreter cannot solve the generated file (%s): exit %s, %s' % (
                        mp, n, a[2:], r.returncode, r.stderr.strip().split('\n')[-1][:300])), c3)
                elif st[0] != facts['status'] and not (ref['enumerable'] and st[0] == ('Optimal' if ref['feasible'] else 'Infeasible')):
                    ctx.finding(en.F('C09', 'separate_process', '%s/%s: a separate interpreter reports %s, this process %s for %s' % (
                        mp, n, st[0], facts['status'], a[2:])), c3)
            except subprocess.TimeoutExpired:
                ctx.cnt('separate_interpreter_timed_out')
        ctx.sample({'gen_argv': case['gen_argv'], 'file': text[:900], 'solver_argv': c3['solver_argv'],
                    'status': facts.get('status')}, cap=2)
    lc.harvest_contracts(ctx, case)


def _l(x):
    return x if isinstance(x, (list, tuple)) else [x]


def replay(w, ctx):
    run_case(w['case']['cs'], ctx)


def floors(m, tier):
    out = []
    c, cov = m['counters'], m['cover']
    need = 1100 if tier == 'quick' else 15000
    if c.get('solver_runs', 0) < need:
        out.append('only %d solver runs' % c.get('solver_runs', 0))
    for k in ('type_ha_one', 'type_sm_two', 'type_hr_two', 'type_spa_one', 'type_spa_two', 'lp_feasible', 'lp_infeasible',
              'lp_with_stab', 'zero_capacity_lecturer', 'bf_feasible', 'bf_infeasible'):
        if cov.get(k, 0) < 15:
            out.append('class %s seen %d times' % (k, cov.get(k, 0)))
    return out
