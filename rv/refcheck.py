"""./vcheck refcheck - cross-check of the reference model (rv/refmodel.py) and the
strict parsers against the 45 result files the author shipped under
/repo/Evaluations (produced in 2020 by an older version of the package).

This is self-validation of the oracle, not a property check: it shows that the
independent executable specification agrees with the published evaluation data
on every figure that can be recomputed (optimal_* lines of the brute-force runs
with and without -pc; profile/cost/degree of the maxsize+generous, maxsize+greedy
and greedy+-pc runs; validity and stability of the -stab matchings).
"""
import glob
import os
import re
import sys

from . import outparse as op
from . import refmodel as rm

EV = os.path.join(os.environ.get('VERIF_REPO', '/repo'), 'Evaluations')


def kvs(text):
    out, info = {}, []
    for line in text.split('\n'):
        line = line.strip()
        if line.startswith('- '):
            info.append(line[2:])
        m = re.match(r'^([a-z_]+): (.*)$', line)
        if m:
            out[m.group(1)] = m.group(2).strip()
    return out, info


def prof(s):
    return [int(x) for x in s.strip('<> ').split()]


def main(argv):
    bad, n = [], 0
    for setname, na in (('hr', 2), ('spa', 3), ('spa_no_lq', 3), ('spa_onesided', 3)):
        for inst_path in sorted(glob.glob(os.path.join(EV, setname, 'instances', '*.txt'))):
            base = os.path.basename(inst_path)
            spec, _ = op.parse_instance_file(open(inst_path).read(), na)
            two = any(spec['lec'][k] for k in range(spec['nl']))
            for kind in sorted(os.listdir(os.path.join(EV, setname))):
                rp = os.path.join(EV, setname, kind, base)
                if kind == 'instances' or not os.path.exists(rp):
                    continue
                kv, info = kvs(open(rp).read())
                inst = rm.Inst(spec, two)
                pc = any('project closures' in l for l in info) or kind.endswith('_pc')
                tag = '%s/%s/%s' % (setname, kind, base)
                if kind.startswith('bruteforce'):
                    exp = rm.bf_summary(inst, pc)
                    if exp is None:
                        if 'optimal_size' in kv:
                            bad.append('%s: shipped a summary, reference says infeasible' % tag)
                        n += 1
                        continue
                    pairs = [('optimal_size', exp['optimal_size']), ('optimal_maxsizemincost', exp['optimal_maxsizemincost'][0]),
                             ('optimal_maxsizemindegree', exp['optimal_maxsizemindegree']),
                             ('optimal_maxsizeminsqcost', exp['optimal_maxsizeminsqcost'][0]),
                             ('optimal_max_lec_abs_diff', exp['optimal_max_lec_abs_diff']),
                             ('optimal_sum_lec_abs_diff', exp['optimal_sum_lec_abs_diff'])]
                    for k, e in pairs:
                        n += 1
                        got = kv.get(k)
                        if got is None or int(re.sub(r'[^\d-].*', '', got.strip('( '))) != e:
                            bad.append('%s: %s shipped %s, reference %s' % (tag, k, got, e))
                    for k in ('optimal_generousmaxprofile', 'optimal_greedymaxprofile', 'optimal_greedyprofile'):
                        n += 1
                        if k not in kv or prof(kv[k]) != exp[k]:
                            bad.append('%s: %s shipped %s, reference %s' % (tag, k, kv.get(k), exp[k]))
                    continue
                if 'matching' not in kv:
                    continue
                m = tuple(int(x) for x in kv['matching'].split())
                stab = any('stability' in l for l in info)
                why = rm.validity(inst, m, pc)
                n += 1
                if why:
                    bad.append('%s: shipped matching invalid by the reference: %s' % (tag, why))
                    continue
                if stab:
                    n += 1
                    if rm.blocking_pairs(inst, m, first_only=True):
                        bad.append('%s: shipped -stab matching is blocked by %s' % (tag, rm.blocking_pairs(inst, m, True)))
                st = rm.stats(inst, m)
                for k, e in (('cost', st['cost'][0]), ('cost_sq', st['cost_sq'][0]), ('degree', st['degree']),
                             ('max_lec_abs_diff', st['max_lec_abs_diff']), ('sum_lec_abs_diff', st['sum_lec_abs_diff'])):
                    n += 1
                    if k in kv and int(re.sub(r'[^\d-].*', '', kv[k].strip('( '))) != e:
                        bad.append('%s: %s shipped %s, recomputed %s' % (tag, k, kv[k], e))
                n += 1
                if 'profile' in kv and prof(kv['profile']) != st['profile']:
                    bad.append('%s: profile shipped %s, recomputed %s' % (tag, kv['profile'], st['profile']))
                # optimality for the criteria named in the info lines
                crits = []
                for l in info:
                    if 'maximising size' in l:
                        crits.append(['maxsize', len(crits) + 1, []])
                    elif 'generous' in l:
                        crits.append(['gen', len(crits) + 1, []])
                    elif 'greedy' in l:
                        crits.append(['gre', len(crits) + 1, []])
                if crits:
                    feas = rm.enumerate_valid(inst, pc, stab)
                    steps = rm.elementary_steps(inst, crits)
                    sets, vals = rm.lex_filter(feas, steps)
                    n += 1
                    if rm.value_vector(m, steps) != tuple(vals):
                        bad.append('%s: shipped matching measures %s for %s, reference optimum %s' % (
                            tag, rm.value_vector(m, steps), [c[0] for c in crits], tuple(vals)))
    print('refcheck: %d figures of the shipped Evaluations results compared with the reference model, %d disagreements' % (n, len(bad)))
    for b in bad[:20]:
        print('  ' + b)
    return 0 if not bad else 1
