"""Executable specification (reference model), written from the property
statements; shares no code with the repository.

Matchings are tuples of length ns: 0 = unassigned, else a 1-based project id.
"""
from itertools import product


class Inst:
    def __init__(self, spec, twopl):
        self.spec = spec
        self.twopl = bool(twopl)
        self.na = spec['na']
        self.ns, self.np, self.nl = spec['ns'], spec['np'], spec['nl']
        self.plq, self.puq, self.plec = spec['plq'], spec['puq'], spec['plec']
        self.llq, self.lt, self.luq = spec['llq'], spec['lt'], spec['luq']
        # student side: acceptable projects in list order with dense ranks
        self.acc = []       # per student: [(p, rank)]
        self.srank = []     # per student: {p: rank}
        for groups in spec['st']:
            row, d = [], {}
            for r, g in enumerate(groups, start=1):
                for p in g:
                    row.append((p, r))
                    d[p] = r
            self.acc.append(row)
            self.srank.append(d)
        self.R = max([len(g) for g in spec['st']] + [0])
        # lecturer side
        self.lrank = {}
        if self.twopl:
            for k, groups in enumerate(spec['lec']):
                for r, g in enumerate(groups, start=1):
                    for s in g:
                        self.lrank[(k + 1, s)] = r

    def lec_of(self, p):
        return self.plec[p - 1]

    def n_acceptable_assignments(self):
        n = 1
        for row in self.acc:
            n *= len(row) + 1
        return n


def loads(inst, m):
    pc = [0] * inst.np
    lc = [0] * inst.nl
    for p in m:
        if p:
            pc[p - 1] += 1
            lc[inst.plec[p - 1] - 1] += 1
    return pc, lc


def validity(inst, m, pc_opt):
    """Return None if *m* is a valid matching, else a reason string."""
    if len(m) != inst.ns:
        return 'length %d != %d students' % (len(m), inst.ns)
    for s, p in enumerate(m):
        if p and p not in inst.srank[s]:
            return 'student %d assigned unacceptable project %d' % (s + 1, p)
    pcount, lcount = loads(inst, m)
    for j in range(inst.np):
        c = pcount[j]
        if pc_opt and c == 0:
            continue
        if c < inst.plq[j] or c > inst.puq[j]:
            return 'project %d has %d students, quota [%d,%d]%s' % (
                j + 1, c, inst.plq[j], inst.puq[j], ' (closures on)' if pc_opt else '')
    for k in range(inst.nl):
        c = lcount[k]
        if c < inst.llq[k] or c > inst.luq[k]:
            return 'lecturer %d has %d students, quota [%d,%d]' % (
                k + 1, c, inst.llq[k], inst.luq[k])
    return None


def blocking_pairs(inst, m, first_only=False, cover=None):
    """SPA-STL blocking pairs of *m* (needs two-sided lists).

    Returns a list of (student, project, clause).  'Worst assignee' of an empty
    set is undefined and the corresponding clause is then false.
    cover: optional dict counting which clause decided.
    """
    out = []
    pcount, lcount = loads(inst, m)
    worst_p = [None] * inst.np
    worst_l = [None] * inst.nl
    for s, p in enumerate(m):
        if p:
            k = inst.plec[p - 1]
            r = inst.lrank[(k, s + 1)]
            if worst_p[p - 1] is None or r > worst_p[p - 1]:
                worst_p[p - 1] = r
            if worst_l[k - 1] is None or r > worst_l[k - 1]:
                worst_l[k - 1] = r
    for s in range(inst.ns):
        cur = m[s]
        for p, r in inst.acc[s]:
            if cur and not (r < inst.srank[s][cur]):
                if cover is not None and cur != p and r == inst.srank[s][cur]:
                    cover['student_tie_not_strict'] = cover.get('student_tie_not_strict', 0) + 1
                continue
            k = inst.plec[p - 1]
            rl = inst.lrank[(k, s + 1)]
            p_under = pcount[p - 1] < inst.puq[p - 1]
            l_under = lcount[k - 1] < inst.luq[k - 1]
            clause = None
            if p_under and l_under:
                clause = '3a'
            elif p_under and not l_under:
                if cur and inst.plec[cur - 1] == k:
                    clause = '3b_in_Ml'
                elif worst_l[k - 1] is not None and rl < worst_l[k - 1]:
                    clause = '3b_pref'
                elif cover is not None:
                    if worst_l[k - 1] is None:
                        cover['3b_no_worst'] = cover.get('3b_no_worst', 0) + 1
                    elif rl == worst_l[k - 1]:
                        cover['3b_tie_not_strict'] = cover.get('3b_tie_not_strict', 0) + 1
            else:
                if worst_p[p - 1] is not None and rl < worst_p[p - 1]:
                    clause = '3c'
                elif cover is not None:
                    if worst_p[p - 1] is None:
                        cover['3c_no_worst'] = cover.get('3c_no_worst', 0) + 1
                    elif rl == worst_p[p - 1]:
                        cover['3c_tie_not_strict'] = cover.get('3c_tie_not_strict', 0) + 1
            if clause:
                if cover is not None:
                    cover[clause] = cover.get(clause, 0) + 1
                out.append((s + 1, p, clause))
                if first_only:
                    return out
    return out


def is_stable(inst, m):
    return not blocking_pairs(inst, m, first_only=True)


def stats(inst, m):
    m = tuple(m)
    cache = inst.__dict__.setdefault('_stats_cache', {})
    if m in cache:
        return cache[m]
    res = _stats(inst, m)
    if len(cache) < 200000:
        cache[m] = res
    return res


def _stats(inst, m):
    size = sum(1 for p in m if p)
    cs = sum(inst.srank[s][p] for s, p in enumerate(m) if p)
    cs2 = sum(inst.srank[s][p] ** 2 for s, p in enumerate(m) if p)
    cl = cl2 = 0
    if inst.twopl:
        cl = sum(inst.lrank[(inst.plec[p - 1], s + 1)] for s, p in enumerate(m) if p)
        cl2 = sum(inst.lrank[(inst.plec[p - 1], s + 1)] ** 2 for s, p in enumerate(m) if p)
    degree = max([inst.srank[s][p] for s, p in enumerate(m) if p] + [0])
    profile = [0] * inst.R
    for s, p in enumerate(m):
        if p:
            profile[inst.srank[s][p] - 1] += 1
    pcount, lcount = loads(inst, m)
    diffs = [abs(lcount[k] - inst.lt[k]) for k in range(inst.nl)]
    return {'size': size, 'cost': (cs, cl), 'cost_sq': (cs2, cl2),
            'degree': degree, 'profile': profile,
            'max_lec_abs_diff': max(diffs + [0]), 'sum_lec_abs_diff': sum(diffs),
            'pcount': pcount, 'lcount': lcount}


def enumerate_assignments(inst, respect_upper=True):
    """All assignments of students to acceptable projects (or none) that
    respect project and lecturer upper quotas (DFS with pruning)."""
    out = []
    pc = [0] * inst.np
    lc = [0] * inst.nl
    cur = [0] * inst.ns

    def rec(s):
        if s == inst.ns:
            out.append(tuple(cur))
            return
        cur[s] = 0
        rec(s + 1)
        for p, _ in inst.acc[s]:
            k = inst.plec[p - 1] - 1
            if respect_upper and (pc[p - 1] >= inst.puq[p - 1] or lc[k] >= inst.luq[k]):
                continue
            pc[p - 1] += 1
            lc[k] += 1
            cur[s] = p
            rec(s + 1)
            pc[p - 1] -= 1
            lc[k] -= 1
        cur[s] = 0

    rec(0)
    return out


def enumerate_valid(inst, pc_opt, stab=False):
    ms = [m for m in enumerate_assignments(inst) if validity(inst, m, pc_opt) is None]
    if stab:
        ms = [m for m in ms if is_stable(inst, m)]
    return ms


def all_acceptable_assignments(inst):
    """Every assignment to acceptable projects, valid or not."""
    choices = [[0] + [p for p, _ in row] for row in inst.acc]
    return [tuple(x) for x in product(*choices)]


# ---------------------------------------------------------------- criteria

def elementary_steps(inst, crits):
    """Flatten an ordered criteria list [(name, pos, extras)] into elementary
    steps (label, key) where key(m) is to be MINIMISED; one step corresponds to
    one integer-programming solve in a straightforward implementation."""
    steps = []
    R = inst.R
    for name, _pos, ex in crits:
        ex = list(ex or [])
        if name == 'maxsize':
            steps.append(('maxsize', lambda m: -sum(1 for p in m if p)))
        elif name == 'minsize':
            steps.append(('minsize', lambda m: sum(1 for p in m if p)))
        elif name == 'gen':
            cut = ex[0] if ex else 1
            for r in range(R, max(0, cut - 1), -1):
                steps.append(('gen@%d' % r, (lambda r: lambda m: stats(inst, m)['profile'][r - 1])(r)))
        elif name == 'gre':
            cut = ex[0] if ex else R
            for r in range(1, min(cut, R) + 1):
                steps.append(('gre@%d' % r, (lambda r: lambda m: -stats(inst, m)['profile'][r - 1])(r)))
        elif name == 'mincost':
            a = ex[0] if len(ex) > 0 else 1
            b = ex[1] if len(ex) > 1 else 0
            steps.append(('mincost(%d,%d)' % (a, b), (lambda a, b: lambda m: (
                a * stats(inst, m)['cost'][0] + b * stats(inst, m)['cost'][1]))(a, b)))
        elif name == 'minsqcost':
            a = ex[0] if len(ex) > 0 else 1
            b = ex[1] if len(ex) > 1 else 0
            steps.append(('minsqcost(%d,%d)' % (a, b), (lambda a, b: lambda m: (
                a * stats(inst, m)['cost_sq'][0] + b * stats(inst, m)['cost_sq'][1]))(a, b)))
        elif name == 'lmb':
            steps.append(('lmb', lambda m: stats(inst, m)['max_lec_abs_diff']))
        elif name == 'lsb':
            steps.append(('lsb', lambda m: stats(inst, m)['sum_lec_abs_diff']))
        elif name == 'mincostlsb':
            a = ex[0] if len(ex) > 0 else 1
            b = ex[1] if len(ex) > 1 else 1
            steps.append(('mincostlsb(%d,%d)' % (a, b), (lambda a, b: lambda m: (
                a * stats(inst, m)['cost'][0] + b * stats(inst, m)['sum_lec_abs_diff']))(a, b)))
        else:
            raise ValueError(name)
    return steps


def criterion_steps(inst, crit):
    return elementary_steps(inst, [crit])


def lex_filter(cands, steps):
    """Successive optimal sets: returns [set_after_step_0, set_after_step_1, ...]
    together with the optimal value of each step."""
    sets, vals = [], []
    cur = list(cands)
    for _label, key in steps:
        if not cur:
            sets.append([])
            vals.append(None)
            continue
        best = min(key(m) for m in cur)
        cur = [m for m in cur if key(m) == best]
        sets.append(cur)
        vals.append(best)
    return sets, vals


def value_vector(m, steps):
    return tuple(key(m) for _l, key in steps)


# ---------------------------------------------------------------- brute force

def moregen(p1, p2):
    for i in range(len(p1) - 1, -1, -1):
        if p1[i] != p2[i]:
            return p1[i] < p2[i]
    return False


def bf_summary(inst, pc_opt):
    """What brute-force mode must print (C07)."""
    valid = enumerate_valid(inst, pc_opt)
    if not valid:
        return None
    st = {m: stats(inst, m) for m in valid}
    msize = max(st[m]['size'] for m in valid)
    top = [m for m in valid if st[m]['size'] == msize]
    gen_key = lambda m: tuple(reversed(st[m]['profile']))
    gre_key = lambda m: tuple(-x for x in st[m]['profile'])
    return {
        'optimal_size': msize,
        'optimal_maxsizemincost': min(st[m]['cost'] for m in top),
        'optimal_maxsizemindegree': min(st[m]['degree'] for m in top),
        'optimal_maxsizeminsqcost': min(st[m]['cost_sq'] for m in top),
        'optimal_generousmaxprofile': list(reversed(min(gen_key(m) for m in top))),
        'optimal_greedymaxprofile': [-x for x in min(gre_key(m) for m in top)],
        'optimal_greedyprofile': [-x for x in min(gre_key(m) for m in valid)],
        'optimal_max_lec_abs_diff': min(st[m]['max_lec_abs_diff'] for m in valid),
        'optimal_sum_lec_abs_diff': min(st[m]['sum_lec_abs_diff'] for m in valid),
        'n_valid': len(valid), 'n_top': len(top),
        'n_top_costs': len({st[m]['cost'] for m in top}),
    }


# ---------------------------------------------------------------- options

def expected_order(crits):
    """Criteria [(name,pos,extras)] in increasing position."""
    return sorted(crits, key=lambda c: c[1])


def expected_solves(inst, crits):
    if not crits:
        return 1
    return len(elementary_steps(inst, expected_order(crits)))


INFO_KEYWORDS = {
    'maxsize': 'maximising size', 'minsize': 'minimising size',
    'gen': 'generous', 'gre': 'greedy', 'mincost': 'minimising sum of ranks',
    'minsqcost': 'minimising sum of square of ranks', 'lmb': 'load max balanced',
    'lsb': 'load sum balanced', 'mincostlsb': 'minimising costs with lecturer load balancing',
}


def line_matches(crit, line):
    """Does an '- optimisation: ...' line of the results talk about criterion *crit*?
    Recognised by word stems, so rewording that keeps the meaning does not alarm."""
    l = line.lower()
    if crit == 'maxsize':
        return 'maxim' in l and 'size' in l
    if crit == 'minsize':
        return 'minim' in l and 'size' in l
    if crit == 'gen':
        return 'generous' in l
    if crit == 'gre':
        return 'greedy' in l
    if crit == 'minsqcost':
        return 'squar' in l
    if crit == 'mincostlsb':
        return ('cost' in l or 'rank' in l) and 'load' in l
    if crit == 'mincost':
        return ('cost' in l or 'rank' in l) and 'squar' not in l and 'load' not in l
    if crit == 'lmb':
        return 'load' in l and 'max' in l and 'cost' not in l and 'rank' not in l
    if crit == 'lsb':
        return 'load' in l and 'sum' in l and 'cost' not in l and 'rank' not in l
    return False
