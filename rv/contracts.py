"""Runtime contracts (icontract) on the real functions the properties name.

Conditions are named functions; a failed condition is *recorded* (CONTRACT_LOG)
and the call continues, so one property's contract never aborts an execution
another property is observing.  Every namespace under matchingproblems.* that
holds a reference to an original function is re-bound (the generators do
`from .generator_shared import *`).  Evaluations are counted; zero evaluations
of a property's primary contract makes that check inconclusive.
"""
import sys

import icontract

from . import refmodel as rm

LOG = []          # recorded contract violations: dicts with prop/monitor/msg
EVALS = {}        # contract name -> number of evaluations
INSTALLED = {}


class ContractBroken(Exception):
    pass


def _ev(name):
    EVALS[name] = EVALS.get(name, 0) + 1


def _rec(prop, monitor, msg, **kw):
    if len(LOG) < 200:
        d = {'prop': prop, 'monitor': monitor, 'msg': msg}
        d.update(kw)
        LOG.append(d)


def drain():
    out = list(LOG)
    del LOG[:]
    return out


def _rebind(orig, new):
    n = 0
    for name, mod in list(sys.modules.items()):
        if not name.startswith('matchingproblems') or mod is None:
            continue
        for k, v in list(vars(mod).items()):
            if v is orig:
                setattr(mod, k, new)
                n += 1
    return n


# ------------------------------------------------------------------ C06

class ModelInst:
    """Reference view of a real Model built from its documented attributes."""

    def __init__(self, model):
        self.ns, self.np, self.nl = model.num_students, model.num_projects, model.num_lecturers
        self.puq = list(model.proj_upper_quotas)
        self.plq = list(model.proj_lower_quotas)
        self.luq = list(model.lec_upper_quotas)
        self.llq = list(model.lec_lower_quotas)
        self.lt = list(model.lec_targets)
        self.plec = list(model.proj_lecturers)
        self.acc, self.srank, self.lrank = [], [], {}
        for row in model.pairs:
            r, d = [], {}
            for p in row:
                r.append((p.projectID, p.rank_student))
                d[p.projectID] = p.rank_student
                self.lrank[(p.lecturerID, p.studentID)] = p.rank_lecturer
            self.acc.append(r)
            self.srank.append(d)
        self.R = max([rk for row in self.acc for _, rk in row] + [0])
        self.twopl = True


def matching_of(model, pair_list):
    m = [0] * model.num_students
    for i, p in enumerate(pair_list):
        if p is not None:
            if p.studentID != i + 1:
                return None
            m[i] = p.projectID
    return tuple(m)


def check_stability_post(self, pair_assignments_with_none, result):
    _ev('check_stability')
    try:
        inst = ModelInst(self)
        if len(pair_assignments_with_none) != inst.ns:
            return True
        m = matching_of(self, pair_assignments_with_none)
        if m is None:
            return True
        # domain of C06: acceptable projects, upper quotas respected
        pc, lc = rm.loads(inst, m)
        for s, p in enumerate(m):
            if p and p not in inst.srank[s]:
                return True
        if any(pc[j] > inst.puq[j] for j in range(inst.np)) or any(lc[k] > inst.luq[k] for k in range(inst.nl)):
            return True
        _ev('check_stability_in_domain')
        bps = rm.blocking_pairs(inst, m, first_only=True)
        exp = not bps
        if type(result) is not bool:
            _rec('C06', 'contract_check_stability', 'check_stability returned %r (%s), not a bool' % (result, type(result).__name__),
                 matching=list(m))
        elif result != exp:
            _rec('C06', 'contract_check_stability', 'check_stability(%s) returned %s; reference: %s' % (
                list(m), result, 'no blocking pair' if exp else 'blocked by %s' % (bps[0],)), matching=list(m))
    except Exception as e:      # a monitor bug must not look like a repository defect
        EVALS['contract_errors'] = EVALS.get('contract_errors', 0) + 1
        if 'contract_error_sample' not in INSTALLED:
            INSTALLED['contract_error_sample'] = repr(e)
    return True


# ------------------------------------------------------------------ C17

def linear_distribution_post(number_agents, skew, result):
    _ev('create_linear_distribution')
    try:
        w = [float(x) for x in result]
    except Exception:
        _rec('C17', 'contract_linear_distribution', 'result %r is not a sequence of numbers' % (result,), n=number_agents, skew=skew)
        return True
    n, s = number_agents, skew
    bad = None
    if len(w) != n:
        bad = 'length %d != n=%d' % (len(w), n)
    elif any(not (x > 0) for x in w):
        bad = 'non-positive weight %r' % min(w)
    elif abs(sum(w) - 1.0) > 1e-9:
        bad = 'weights sum to %r' % sum(w)
    elif n == 1 and abs(w[0] - 1.0) > 1e-12:
        bad = 'single agent has weight %r' % w[0]
    elif n >= 2:
        big = max(w)
        d = [w[i + 1] - w[i] for i in range(n - 1)]
        if max(d) - min(d) > 1e-9 * big:
            bad = 'not an arithmetic progression: differences range %r..%r' % (min(d), max(d))
        elif abs(w[-1] - s * w[0]) > 1e-9 * max(w[-1], s * w[0]):
            bad = 'last/first = %r, requested skew %r' % (w[-1] / w[0], s)
    if bad:
        _rec('C17', 'contract_linear_distribution', 'create_linear_distribution(%r, %r): %s' % (n, s, bad), n=n, skew=s)
    return True


# ------------------------------------------------------------------ C13 writer

def string_pref_post(pref_list, ties_indicators, result):
    _ev('create_string_pref')
    from . import outparse as op
    n = len(pref_list)
    try:
        toks = list(result)
        if len(toks) != n:
            raise op.ParseError('%d tokens for %d entries' % (len(toks), n))
        groups = op.parse_groups(toks)
        flat = [x for g in groups for x in g]
        if flat != [int(x) for x in pref_list]:
            raise op.ParseError('entry order changed: %s' % flat)
        # expected grouping: maximal runs of 1-decisions, last decision irrelevant
        exp, cur = [], [int(pref_list[0])] if n else []
        for i in range(1, n):
            if ties_indicators[i - 1]:
                cur.append(int(pref_list[i]))
            else:
                exp.append(cur)
                cur = [int(pref_list[i])]
        if n:
            exp.append(cur)
        if groups != exp:
            raise op.ParseError('groups %s, decisions imply %s' % (groups, exp))
    except op.ParseError as e:
        _rec('C13', 'contract_create_string_pref', 'create_string_pref(%s, %s) -> %s: %s' % (
            [int(x) for x in pref_list], [int(x) for x in ties_indicators], list(result), e),
            pref=[int(x) for x in pref_list], ties=[int(x) for x in ties_indicators])
    except Exception as e:
        EVALS['contract_errors'] = EVALS.get('contract_errors', 0) + 1
    return True


# ------------------------------------------------------------------ C08 helpers

from .spec import even_spread  # noqa: E402


def create_quotas_post(n, sum_q, result):
    _ev('create_quotas')
    try:
        exp = even_spread(sum_q, n)
        if list(result) != exp:
            _rec('C08', 'contract_create_quotas', 'create_quotas(%r, %r) -> %s, expected %s (even, larger shares first, summing to the total)' % (
                n, sum_q, list(result), exp))
    except Exception:
        EVALS['contract_errors'] = EVALS.get('contract_errors', 0) + 1
    return True


def project_lecturers_post(self, n2, n3, result):
    _ev('create_project_lecturers')
    try:
        res = list(result)
        counts = [res.count(k + 1) for k in range(n3)]
        if len(res) != n2 or any(not (1 <= x <= n3) for x in res) or counts != even_spread(n2, n3):
            _rec('C08', 'contract_create_project_lecturers', 'create_project_lecturers(%r, %r) -> %s: projects per lecturer %s, expected %s' % (
                n2, n3, res, counts, even_spread(n2, n3)))
    except Exception:
        EVALS['contract_errors'] = EVALS.get('contract_errors', 0) + 1
    return True


# ------------------------------------------------------------------ C10 reader helper

def simple_pref_post(pref_list, result):
    from . import outparse as op
    # domain of this (auxiliary) contract: the helper as the pinned tree defines it - a list of string tokens
    if not isinstance(pref_list, (list, tuple)) or not all(isinstance(t, str) for t in pref_list):
        return True
    _ev('_get_simple_pref_list_and_ranks')
    try:
        groups = op.parse_groups(list(pref_list))
    except op.ParseError:
        return True      # outside the documented grammar: no claim
    try:
        lst, ranks = result
        exp_l = [x for g in groups for x in g]
        exp_r = [i + 1 for i, g in enumerate(groups) for _ in g]
        if list(lst) != exp_l or list(ranks) != exp_r:
            _rec('C10', 'contract_simple_pref', '_get_simple_pref_list_and_ranks(%s) -> %s, %s; expected %s, %s' % (
                list(pref_list), list(lst), list(ranks), exp_l, exp_r))
    except Exception:
        EVALS['contract_errors'] = EVALS.get('contract_errors', 0) + 1
    return True


# ------------------------------------------------------------------ C07 helpers

def moregen_post(self, profile1, profile2, result):
    _ev('moregen')
    try:
        if len(profile1) == len(profile2):
            exp = tuple(reversed(profile1)) < tuple(reversed(profile2))
            if bool(result) != exp or type(result) is not bool:
                _rec('C07', 'contract_moregen', 'moregen(%s, %s) -> %r, expected %s' % (list(profile1), list(profile2), result, exp))
    except Exception:
        EVALS['contract_errors'] = EVALS.get('contract_errors', 0) + 1
    return True


def moregre_post(self, profile1, profile2, result):
    _ev('moregre')
    try:
        if len(profile1) == len(profile2):
            exp = tuple(profile1) > tuple(profile2)
            if bool(result) != exp or type(result) is not bool:
                _rec('C07', 'contract_moregre', 'moregre(%s, %s) -> %r, expected %s' % (list(profile1), list(profile2), result, exp))
    except Exception:
        EVALS['contract_errors'] = EVALS.get('contract_errors', 0) + 1
    return True


def is_valid_post(self, matching_pairs, result):
    _ev('is_valid')
    try:
        model = self.model
        if any(p is None for p in matching_pairs):
            exp = False
        else:
            m = [0] * model.num_students
            dup = False
            for p in matching_pairs:
                if m[p.studentID - 1]:
                    dup = True
                m[p.studentID - 1] = p.projectID
            if dup:
                exp = False
            else:
                pc_opt = None
                for k, v in self.instance_options.items():
                    if getattr(k, 'name', '') == 'PC':
                        pc_opt = bool(v)
                pcount = [0] * model.num_projects
                lcount = [0] * model.num_lecturers
                for p in matching_pairs:
                    pcount[p.projectID - 1] += 1
                    lcount[p.lecturerID - 1] += 1
                exp = True
                for j in range(model.num_projects):
                    c = pcount[j]
                    if pc_opt and c == 0:
                        continue
                    if c < model.proj_lower_quotas[j] or c > model.proj_upper_quotas[j]:
                        exp = False
                for k in range(model.num_lecturers):
                    if lcount[k] < model.lec_lower_quotas[k] or lcount[k] > model.lec_upper_quotas[k]:
                        exp = False
        if bool(result) != exp:
            _rec('C07', 'contract_is_valid', 'is_valid(%s) -> %r, expected %s' % (
                [(p.studentID, p.projectID) if p is not None else None for p in matching_pairs], result, exp))
    except Exception as e:
        EVALS['contract_errors'] = EVALS.get('contract_errors', 0) + 1
        INSTALLED.setdefault('contract_error_sample', repr(e))
    return True


def _wrap(owner, name, post, label):
    """Decorate owner.name with an icontract postcondition; re-bind references."""
    if label in INSTALLED:
        return
    orig = getattr(owner, name, None)
    if orig is None:
        INSTALLED[label] = 'absent'
        return
    try:
        new = icontract.ensure(post, error=lambda: ContractBroken(label), enabled=True)(orig)
    except Exception as e:
        INSTALLED[label] = 'not installable: %r' % e
        return
    setattr(owner, name, new)
    n = 0
    if not isinstance(owner, type):
        n = _rebind(orig, new)
    INSTALLED[label] = 'installed (%d extra bindings re-bound)' % n


def _mod(name):
    import importlib
    try:
        return importlib.import_module(name)
    except Exception:
        return None


def install_all():
    """Install every contract whose target still exists; a missing module, class or
    function is recorded as 'absent' (auxiliary monitors never make a check fail)."""
    model_mod = _mod('matchingproblems.solver.model')
    fileio = _mod('matchingproblems.solver.fileIO')
    bf = _mod('matchingproblems.solver.brute_force_solver')
    gs = _mod('matchingproblems.generator.generator_shared')
    gspa = _mod('matchingproblems.generator.generator_spa')
    _mod('matchingproblems.generator.generator_ha_sm_hr')
    targets = [
        (getattr(model_mod, 'Model', None), 'check_stability', check_stability_post, 'Model.check_stability'),
        (gs, 'create_linear_distribution', linear_distribution_post, 'create_linear_distribution'),
        (gs, 'create_string_pref', string_pref_post, 'create_string_pref'),
        (gs, 'create_quotas', create_quotas_post, 'create_quotas'),
        (getattr(gspa, 'Generator_spa', None), 'create_project_lecturers', project_lecturers_post, 'create_project_lecturers'),
        (fileio, '_get_simple_pref_list_and_ranks', simple_pref_post, '_get_simple_pref_list_and_ranks'),
        (getattr(bf, 'Brute_force_solver', None), 'moregen', moregen_post, 'moregen'),
        (getattr(bf, 'Brute_force_solver', None), 'moregre', moregre_post, 'moregre'),
        (getattr(bf, 'Brute_force_solver', None), 'is_valid', is_valid_post, 'is_valid'),
    ]
    for owner, name, post, label in targets:
        if owner is None:
            INSTALLED.setdefault(label, 'absent')
        else:
            _wrap(owner, name, post, label)
    return dict(INSTALLED)
