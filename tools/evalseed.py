#!/venv/bin/python
"""Confirm a sub-agent's seeded change in its scratch worktree and run our check against it.

usage: tools/evalseed.py <worktree> <k> <property> [extra property ...]
Steps: clean tree -> demo passes; patch applied -> 35 tests pass, demo fails, ./vcheck <prop> (VERIF_REPO=worktree) exits 1.
On confirmation the change is kept as /verif/seeded/<prop>_<k>/ (patch.diff, demo.py, notes.md, meta.json).
"""
import json, os, shutil, subprocess, sys, time
PY = '/venv/bin/python'
VERIF = os.path.dirname(os.path.dirname(os.path.abspath(__file__)))

def sh(cmd, cwd, env=None, timeout=1800):
    e = dict(os.environ)
    e.update(env or {})
    r = subprocess.run(cmd, cwd=cwd, env=e, capture_output=True, text=True, timeout=timeout)
    return r.returncode, r.stdout + r.stderr

def main():
    wt, k, prop = sys.argv[1], sys.argv[2], sys.argv[3]
    others = sys.argv[4:]
    so = os.path.join(wt, 'seeded_out')
    patch, demo, notes = [os.path.join(so, '%s_%s.%s' % (a, k, b)) for a, b in (('patch', 'diff'), ('demo', 'py'), ('notes', 'md'))]
    env = {'PYTHONPATH': wt, 'PYTHONDONTWRITEBYTECODE': '1'}
    sh(['git', 'checkout', '--', '.'], wt); sh(['git', 'clean', '-fdq', '-e', 'refactor_out', '-e', 'seeded_out'], wt)
    res = {'property': prop, 'k': k}
    c, out = sh([PY, demo], wt, env, 900)
    res['demo_clean_exit'] = c
    c, out = sh(['git', 'apply', patch], wt)
    if c != 0:
        print('patch does not apply', out); return 2
    try:
        c, out = sh([PY, '-m', 'pytest', '-q', '-p', 'no:cacheprovider'], wt, env)
        res['tests_with_patch'] = out.strip().split('\n')[-1]
        res['tests_pass'] = c == 0
        c, out = sh([PY, demo], wt, env, 900)
        res['demo_patched_exit'] = c
        res['demo_patched_tail'] = out.strip()[-300:]
        res['checks'] = {}
        for p in [prop] + others:
            t0 = time.time()
            c, out = sh([PY, '-B', '-m', 'rv.runner', p, '--tier', 'quick'], VERIF, {'VERIF_REPO': wt})
            first = [l.strip() for l in out.split('\n') if l.startswith('  [')]
            res['checks'][p] = {'exit': c, 'first_finding': first[0][:300] if first else '', 'secs': round(time.time() - t0)}
    finally:
        sh(['git', 'checkout', '--', '.'], wt); sh(['git', 'clean', '-fdq', '-e', 'refactor_out', '-e', 'seeded_out'], wt)
    confirmed = res['demo_clean_exit'] == 0 and res['tests_pass'] and res['demo_patched_exit'] == 1
    res['confirmed'] = confirmed
    print(json.dumps(res, indent=1))
    if confirmed:
        d = os.path.join(VERIF, 'seeded', '%s_%s%s' % (prop, os.environ.get('SEED_TAG', ''), k))
        os.makedirs(d, exist_ok=True)
        shutil.copy(patch, os.path.join(d, 'patch.diff'))
        shutil.copy(demo, os.path.join(d, 'demo.py'))
        if os.path.exists(notes):
            shutil.copy(notes, os.path.join(d, 'notes.md'))
        meta = {'property': prop, 'source': 'independent sub-agent given only the property text and a scratch worktree',
                'needs_to_manifest': open(notes).read()[:1500] if os.path.exists(notes) else '',
                'confirmed': {'demo_exit_on_clean_tree': res['demo_clean_exit'], 'tests_with_patch': res['tests_with_patch'],
                              'demo_exit_with_patch': res['demo_patched_exit']},
                'what_i_ran': 'tools/evalseed.py %s %s %s: demo on clean worktree; git apply; pytest; demo; ./vcheck <prop> --tier quick with VERIF_REPO=<worktree>; git checkout' % (wt, k, prop),
                'checks': res['checks'],
                'detected_by_owning_check': res['checks'][prop]['exit'] == 1,
                'also_detected_by': [p for p in others if res['checks'][p]['exit'] == 1]}
        mp = os.path.join(d, 'meta.json')
        if os.path.exists(mp):
            oldm = json.load(open(mp))
            for k in ('caught_after_strengthening', 'verdict_note'):
                if k in oldm:
                    meta[k] = oldm[k]
            meta['also_detected_by'] = sorted(set(meta['also_detected_by']) | set(oldm.get('also_detected_by', [])))
        json.dump(meta, open(mp, 'w'), indent=1)
    return 0

sys.exit(main())
