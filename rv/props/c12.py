"""C12 - second-side lists rank exactly the agents that find them acceptable."""
import os
import random

from . import lpcommon as lc
from .. import engine as en
from .. import genengine as ge
from .. import outparse as op

ID = 'C12'
ANCHOR_FILES = ['generator/generator_shared.py', 'generator/generator_spa.py', 'generator/generator_ha_sm_hr.py']
LEVEL = 'exploration'
NEEDS_DEPS = True
EVAL_COUNTER = 'files_checked'
RULE = ('two-sided sm/hr/spa generator runs over random accepted parameter vectors (students ranking several projects of one '
        'lecturer, lecturers nobody ranks, more lecturers than projects, ties on both sides) x harness-seeded RNGs; each file is '
        'parsed strictly and every second-side list must contain exactly once each agent that ranks the hospital/woman (or at '
        'least one project of the lecturer) and nobody else; second monitor: loading the file with -twopl raises nothing '
        '(a missing rank is a KeyError); non-trivial = file in which some lecturer/hospital is ranked by nobody or a student ranks '
        '>= 2 projects of one lecturer; distinct = distinct file contents; evaluations = files checked')
ASSUMPTIONS = ['strict instance-file parser in rv/outparse.py']


def plan(tier):
    return {'cases_per_shard': 260 if tier == 'quick' else 5000,
            'time_cap_s': 90 if tier == 'quick' else 560}


def run_case(cs, ctx):
    lc.contracts_on(ctx)
    from matchingproblems.solver import Solver
    rng = random.Random(cs)
    mp = ['sm', 'hr', 'spa', 'spa'][cs % 4]
    v = ge.legal_vector(rng, mp=mp, max_n1=10, max_n2=10, max_n3=8)
    v['twopl'] = True
    if cs % 97 == 5 and mp in ('hr', 'spa'):
        # a second-side list with more than 1000 entries
        v.update({'n1': rng.randint(1050, 1300), 'n2': 1, 'pmin': 1, 'pmax': 1, 'uq': 1400, 'numinst': 1,
                  't2': rng.choice([None, 0.0, 0.3]), 't1': 0.0})
        v.pop('lq', None)
        if mp == 'spa':
            v.update({'n3': 1, 'luq': 1400})
            v.pop('lt', None)
            v.pop('llq', None)
        ctx.cov('list_longer_than_1000')
    if cs % 97 == 6 and mp == 'spa':
        n2 = rng.choice([256, 512])
        v.update({'n1': 3, 'n2': n2, 'n3': n2 // 256, 'pmin': n2, 'pmax': n2, 'uq': n2 + 10, 'luq': 20, 'numinst': 1})
        for k in ('lq', 'lt', 'llq'):
            v.pop(k, None)
        ctx.cov('student_ranking_256_projects_of_one_lecturer')
    if cs % 40 == 13 and mp in ('hr', 'sm'):
        # many rankable agents, short lists (length between 3 and n2/32)
        n2 = rng.choice([96, 128, 200, 320])
        ln = rng.randint(3, max(3, n2 // 32))
        v.update({'pmin': ln, 'pmax': ln, 'numinst': 1})
        if mp == 'sm':
            v['n1'] = n2
        else:
            v.update({'n1': rng.randint(60, 150), 'n2': n2, 'uq': n2 + rng.randint(0, 40)})
            v.pop('lq', None)
        ctx.cov('ninety_six_or_more_rankable_agents_short_lists')
    if cs % 40 == 14 and mp == 'spa':
        # lecturers numbered beyond 256, each with about two projects; students rank 25 projects
        n3 = rng.randint(270, 300)
        v.update({'n1': 50, 'n2': 2 * n3, 'n3': n3, 'pmin': 25, 'pmax': 25, 'uq': 2 * n3 + 10, 'luq': n3 + 60, 'numinst': 1})
        for k in ('lq', 'lt', 'llq'):
            v.pop(k, None)
        ctx.cov('more_than_256_lecturers')
    if cs % 40 == 15 and mp == 'hr':
        # one hospital ranked by 258..330 residents, dense ties on the second side
        n1 = rng.randint(258, 330)
        v.update({'n1': n1, 'n2': 1, 'pmin': 1, 'pmax': 1, 'uq': n1 + 5, 'numinst': 1, 't2': rng.choice([1.0, 0.85, 0.5])})
        v.pop('lq', None)
        ctx.cov('second_side_list_of_258_or_more_entries_with_dense_ties')
    if ctx.shard == 0 and not getattr(ctx, '_did_65k', False) and mp == 'hr':
        ctx._did_65k = True
        v.update({'n1': 65600, 'n2': 3, 'pmin': 1, 'pmax': 2, 'uq': 65600, 'numinst': 1, 't1': 0.0, 't2': 0.0})
        v.pop('lq', None)
        ctx.cov('more_than_65535_first_side_agents')
    outdir = ge.fresh_outdir(ctx.workdir, 'c12')
    argv = ge.to_argv(v, outdir, rng)
    case = {'cs': cs, 'vector': v, 'argv': [a if a != outdir else '<outdir>' for a in argv]}
    if cs % 25 == 9 and v['numinst'] >= 2 and v['n1'] < 100:
        import os as _os
        import shutil as _sh
        _os.makedirs(_os.path.join(outdir, '1.txt'))        # 1.txt cannot be written: the first run dies half way
        ge.run_generator(argv, cs ^ 0x99)
        _sh.rmtree(_os.path.join(outdir, '1.txt'), ignore_errors=True)
        ctx.cov('retry_after_a_run_that_died_half_way')
    res = ge.run_generator(argv, cs)
    ctx.cnt('generator_runs')
    if res['exit'] is not None or res['exc'] is not None:
        ctx.cnt('unobservable_generator_failed')
        ctx.finding(en.F('C15', 'legal_accepted', 'legal vector not accepted: exit=%r exc=%r' % (res['exit'], res['exc'])), case)
        return
    for n in ge.list_outputs(outdir) or []:
        path = os.path.join(outdir, n)
        text = open(path).read()
        c2 = dict(case, file=text, name=n)
        try:
            spec, _ = op.parse_instance_file(text, ge.NA[mp])
        except op.ParseError as e:
            ctx.cnt('unobservable_file_does_not_parse')
            ctx.finding(en.F('C08', 'file_check', 'file does not parse: %s' % e), c2)
            # a second-side list that cannot even be read does not rank the agents that accept it
            ctx.finding(en.F('C12', 'second_side_readable', '%s/%s: the lists cannot be read: %s' % (mp, n, e)), c2)
            continue
        ctx.cnt('files_checked')
        ctx.cov('type_' + mp)
        for p in ge.check_second_side(spec, mp)[:3]:
            ctx.finding(en.F('C12', 'second_side_exact', '%s/%s: %s' % (mp, n, p)), c2)
        nobody = any(not l for l in spec['lec'])
        several = False
        if mp == 'spa':
            for l in spec['st']:
                lecs = [spec['plec'][p - 1] for g in l for p in g]
                if len(lecs) != len(set(lecs)):
                    several = True
            if spec['nl'] > spec['np']:
                ctx.cov('more_lecturers_than_projects')
        if nobody:
            ctx.cov('agent_ranked_by_nobody')
        if several:
            ctx.cov('student_ranks_several_projects_of_one_lecturer')
        if nobody or several:
            ctx.nontrivial(en.sp.shash(text))
        try:
            Solver(['-f', path, '-na', str(ge.NA[mp]), '-twopl'])
            ctx.cnt('loaded_with_twopl')
        except BaseException as e:
            ctx.finding(en.F('C12', 'loads_with_twopl', '%s/%s: loading with -twopl raised %s: %s' % (mp, n, type(e).__name__, e)), c2)
        ctx.sample({'argv': case['argv'], 'file': text[:1000]}, cap=2)
    lc.harvest_contracts(ctx, case)


def replay(w, ctx):
    run_case(w['case']['cs'], ctx)


def floors(m, tier):
    out = []
    c, cov = m['counters'], m['cover']
    need = 3500 if tier == 'quick' else 80000
    if c.get('files_checked', 0) < need:
        out.append('only %d files checked' % c.get('files_checked', 0))
    if cov.get('list_longer_than_1000', 0) < 5:
        out.append('only %d runs with a second-side list longer than 1000' % cov.get('list_longer_than_1000', 0))
    for k in ('type_sm', 'type_hr', 'type_spa', 'agent_ranked_by_nobody', 'student_ranks_several_projects_of_one_lecturer',
              'more_lecturers_than_projects'):
        if cov.get(k, 0) < 30:
            out.append('class %s seen %d times' % (k, cov.get(k, 0)))
    if c.get('loaded_with_twopl', 0) < need:
        out.append('only %d files loaded with -twopl' % c.get('loaded_with_twopl', 0))
    return out
