"""Import the repository under test from $VERIF_REPO (default /repo).

A directory on sys.path wins over the editable-install finder, so the same
checks can be pointed at a mutated scratch copy.  The loader asserts that the
package really came from there.
"""
import os
import sys

VERIF_DIR = os.path.dirname(os.path.dirname(os.path.abspath(__file__)))
REPO = os.path.abspath(os.environ.get('VERIF_REPO', '/repo'))
DEPS = os.path.join(VERIF_DIR, '.deps')


def load():
    if sys.path[0] != REPO:
        sys.path.insert(0, REPO)
    if DEPS not in sys.path:
        sys.path.insert(1, DEPS)
    import matchingproblems
    f = os.path.abspath(matchingproblems.__file__)
    if not f.startswith(REPO + os.sep):
        raise RuntimeError('matchingproblems imported from %s, not from %s' % (f, REPO))
    import matchingproblems.solver  # noqa
    import matchingproblems.generator  # noqa
    return matchingproblems
