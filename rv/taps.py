"""Harness-side taps: the LP tap on pulp.LpProblem.solve (record / tie-break
injection / fault injection), the post-run pin probe, the virtual clock and the
filesystem audit hook.  No repository edit is needed for any of them.
"""
import datetime as _dt
import os
import sys

import pulp

_ORIG_SOLVE = pulp.LpProblem.solve

STATUS_CODE = {'Not Solved': 0, 'Optimal': 1, 'Infeasible': -1, 'Unbounded': -2,
               'Undefined': -3}
# sol_status a failing back end leaves behind (PuLP's own mapping)
SOL_FOR = {0: 0, 1: 1, -1: -1, -2: -2, -3: 0}


def is_binary(v):
    return v.cat == 'Integer' and v.lowBound == 0 and v.upBound == 1


def point_is_feasible(prob, eps=1e-5):
    """Does the point now in the variables satisfy every constraint, bound and
    integrality requirement of *prob*?  Variables the back end never saw (all
    coefficients zero, value None) are free and count as 0."""
    try:
        for v in prob.variables():
            x = v.varValue
            if x is None:
                continue
            if v.lowBound is not None and x < v.lowBound - eps:
                return False
            if v.upBound is not None and x > v.upBound + eps:
                return False
            if v.cat == 'Integer' and abs(round(x) - x) > eps:
                return False
        for c in prob.constraints.values():
            val = c.constant
            for v, coef in c.items():
                if v.varValue is not None:
                    val += coef * v.varValue
            if c.sense == 0:
                ok = abs(val) <= eps
            elif c.sense < 0:
                ok = val <= eps
            else:
                ok = val >= -eps
            if not ok:
                return False
    except Exception:
        return True
    return True


class VirtualClock:
    """Stands in for the `datetime` module inside matchingproblems.solver.solver:
    everything is delegated to the real module except datetime.now(), which
    returns virtual time (still a real datetime object, so astimezone(),
    strftime() and arithmetic behave as usual)."""

    def __init__(self):
        self.t = 0.0
        self.base = _dt.datetime(2030, 1, 1, 12, 0, 0)
        clock = self

        class _DT(_dt.datetime):
            @classmethod
            def now(cls, tz=None):
                clock.t += 0.001   # every observation costs 1 ms of virtual time
                d = clock.base + _dt.timedelta(seconds=clock.t)
                return d if tz is None else d.astimezone(tz)
        self.datetime = _DT

    def __getattr__(self, name):
        return getattr(_dt, name)

    def advance(self, s):
        self.t += s


class _TimeShim:
    """Stands in for the `time` module (or single functions imported from it) inside the solver's modules:
    monotonic / perf_counter / time read the same virtual clock as datetime.now()."""

    def __init__(self, clock):
        self._c = clock

    def monotonic(self):
        self._c.t += 0.001
        return 1.0e6 + self._c.t

    perf_counter = monotonic

    def monotonic_ns(self):
        return int(self.monotonic() * 1e9)

    perf_counter_ns = monotonic_ns

    def time(self):
        self._c.t += 0.001
        return (self._c.base - _dt.datetime(1970, 1, 1)).total_seconds() + self._c.t

    def time_ns(self):
        return int(self.time() * 1e9)

    def __getattr__(self, name):
        import time as _t
        return getattr(_t, name)


def install_clock(clock, prefix='matchingproblems.solver'):
    """Every clock the solver's modules can read is the virtual one: the name `datetime` (module or class) and
    the name `time` / monotonic / perf_counter / ... in each loaded module under *prefix*.  Returns undo()."""
    import time as _t
    shim = _TimeShim(clock)
    saved = []
    for nm, mod in list(sys.modules.items()):
        if mod is None or not (nm == prefix or nm.startswith(prefix + '.') or nm.startswith(prefix)):
            continue
        ns = vars(mod)
        if ns.get('datetime') is _dt:
            saved.append((mod, 'datetime', _dt))
            mod.datetime = clock
        elif ns.get('datetime') is _dt.datetime:
            saved.append((mod, 'datetime', _dt.datetime))
            mod.datetime = clock.datetime
        for name in ('time', 'monotonic', 'perf_counter', 'monotonic_ns', 'perf_counter_ns', 'time_ns'):
            v = ns.get(name)
            if v is None:
                continue
            if v is _t:
                saved.append((mod, name, v))
                setattr(mod, name, shim)
            elif getattr(_t, name, None) is v:
                saved.append((mod, name, v))
                setattr(mod, name, getattr(shim, name))

    def undo():
        for mod, name, v in saved:
            setattr(mod, name, v)
    return undo


class LPTap:
    def __init__(self):
        self.reset()
        self.installed = False

    def reset(self):
        self.enabled = True
        self.events = []
        self.probs = []           # distinct live LpProblem objects, in order seen
        self.inject_rng = None    # random.Random -> tie-break injection on
        self.inj = {'done': 0, 'changed': 0, 'skipped': 0, 'nosolve': 0}
        self.faults = None        # {ordinal: fault dict} or callable(ordinal)
        self.persistent_from = None
        self.clock = None
        self.time_limit = None
        self.snapshot = None      # callable() -> matching tuple, set by the engine
        self.solver_used = None
        self.backend_faults = 0
        self.force_options = None   # e.g. ['preprocess off'] for second-opinion executions

    def install(self):
        if self.installed:
            return
        tap = self

        def solve(prob, solver=None, **kw):
            return tap._solve(prob, solver, **kw)
        pulp.LpProblem.solve = solve
        self.installed = True

    # ------------------------------------------------------------------ core
    def _solve(self, prob, solver=None, **kw):
        if not self.enabled:
            return _ORIG_SOLVE(prob, solver, **kw)
        ordinal = len(self.events)
        if not any(p is prob for p in self.probs):
            self.probs.append(prob)
        self.solver_used = solver
        fault = self._fault_for(ordinal)
        ev = {'ordinal': ordinal, 'ncons': len(prob.constraints), 'fault': None,
              'injected': False}
        # what the back end is asked to do: with a relative / absolute optimality gap or a node limit the status
        # 'Optimal' no longer certifies an optimum (every optimisation property rests on that certificate)
        try:
            sv = solver if solver is not None else getattr(prob, 'solver', None)
            od = dict(getattr(sv, 'optionsDict', None) or {})
            gap = {k: od[k] for k in ('gapRel', 'gapAbs', 'maxNodes') if od.get(k) is not None}
            if (gap.get('gapRel') or 0) >= 0.01 or (gap.get('gapAbs') or 0) >= 1 or gap.get('maxNodes') is not None:
                ev['uncertified'] = gap
        except Exception:
            pass
        if fault is not None:
            ev['fault'] = {k: v for k, v in fault.items() if not k.startswith('_')}
            self._apply_fault(prob, solver, fault, kw)
        else:
            if self.force_options and solver is not None:
                try:
                    solver = pulp.PULP_CBC_CMD(msg=False, timeLimit=getattr(solver, 'timeLimit', None),
                                               threads=getattr(solver, 'threads', None), options=list(self.force_options))
                except Exception:
                    pass
            _ORIG_SOLVE(prob, solver, **kw)
            if self.clock is not None:
                self.clock.advance(0.001)
            # trusted-base monitor: a point returned with status Optimal must satisfy
            # the problem it was returned for (CBC 2.10.3 has been seen to violate this)
            if prob.status == 1 and not point_is_feasible(prob):
                ev['backend_fault'] = True
                self.backend_faults += 1
            if (self.inject_rng is not None and prob.status == 1 and
                    prob.sol_status == 1):
                ev['injected'] = self._tiebreak(prob, solver)
        ev['status'] = prob.status
        ev['sol_status'] = prob.sol_status
        try:
            ev['objective'] = pulp.value(prob.objective)
        except Exception:
            ev['objective'] = None
        if self.snapshot is not None:
            try:
                ev['matching'] = self.snapshot()
            except Exception as e:   # values may be None after a fault
                ev['matching'] = None
                ev['snapshot_error'] = repr(e)
        self.events.append(ev)
        return prob.status

    # ------------------------------------------------------- tie-break injection
    def _tiebreak(self, prob, solver):
        rng = self.inject_rng
        saved = [(v, v.varValue) for v in prob.variables()]
        before = self.snapshot() if self.snapshot else None
        try:
            v = pulp.value(prob.objective)
            cp = prob.copy()
            if prob.objective is not None and len(prob.objective) > 0 and v is not None:
                # the repository always maximises (it negates to minimise)
                cp += (prob.objective >= round(v)), '__verif_keep_opt'
            bins = [x for x in prob.variables() if is_binary(x)]
            if not bins:
                self.inj['nosolve'] += 1
                return False
            cp.objective = pulp.lpSum(rng.randint(-3, 3) * x for x in bins)
            cp.sense = pulp.LpMaximize
            _ORIG_SOLVE(cp, solver)
            ok = cp.status == 1 and cp.sol_status == 1
            if ok:
                for c in prob.constraints.values():
                    if not c.valid(1e-6):
                        ok = False
                        break
            if ok:
                for x in prob.variables():
                    if x.varValue is None or not x.valid(1e-6):
                        ok = False
                        break
            if ok and v is not None:
                v2 = pulp.value(prob.objective)
                if v2 is None or abs(v2 - v) > 1e-6:
                    ok = False
            if not ok:
                for x, val in saved:
                    x.varValue = val
                self.inj['skipped'] += 1
                return False
            self.inj['done'] += 1
            if before is not None and self.snapshot() != before:
                self.inj['changed'] += 1
            return True
        except Exception:
            for x, val in saved:
                x.varValue = val
            self.inj['skipped'] += 1
            return False

    # ----------------------------------------------------------- fault injection
    def _fault_for(self, ordinal):
        if self.faults is None:
            return None
        best = None
        for f in self.faults:
            if f['at'] == ordinal or (f.get('persistent') and ordinal >= f['at']):
                if best is None or f['at'] > best['at']:
                    best = f
        return best

    def _apply_fault(self, prob, solver, fault, kw):
        kind = fault['kind']
        policy = fault.get('values', 'zeros')
        rng = fault.get('_rng')
        limit = self.time_limit
        if kind == 'Incumbent':
            # what PuLP reports when CBC stops on time with an incumbent:
            # status Optimal, sol_status IntegerFeasible, a feasible but
            # unproven solution in the variables
            _ORIG_SOLVE(prob, solver, **kw)
            if prob.status == 1:
                cp = prob.copy()
                cp.objective = -1 * prob.objective
                _ORIG_SOLVE(cp, solver)
                if cp.status != 1:
                    _ORIG_SOLVE(prob, solver, **kw)
                prob.assignStatus(1, 2)
            # a proved-infeasible problem stays infeasible
        else:
            code = STATUS_CODE[kind]
            if policy == 'zeros':
                for x in prob.variables():
                    x.varValue = 0
            elif policy == 'random':
                for x in prob.variables():
                    if is_binary(x):
                        x.varValue = rng.randint(0, 1)
                    else:
                        lo = x.lowBound if x.lowBound is not None else 0
                        hi = x.upBound if x.upBound is not None else lo + 5
                        x.varValue = rng.randint(int(lo), int(max(lo, hi)))
            elif policy == 'stale':
                pass
            prob.assignStatus(code, SOL_FOR[code])
        if self.clock is not None:
            if limit is not None and kind in ('Incumbent', 'Not Solved'):
                self.clock.advance(limit * fault.get('tfrac', 0.9))
            else:
                self.clock.advance(0.001)


TAP = LPTap()


def pin_probe(prob, pair_vars, matchings, solver=None):
    """For each matching, ask the back end whether the real problem (all of its
    constraints, including frozen bounds) has a point whose pair variables equal
    that matching.  pair_vars: [(student, project, LpVariable)].
    Variable values are restored afterwards.  Returns {matching: bool}."""
    saved = [(v, v.varValue) for v in prob.variables()]
    st, sst = prob.status, prob.sol_status
    out = {}
    solver = solver or pulp.PULP_CBC_CMD(msg=False)
    try:
        for m in matchings:
            cp = prob.copy()
            cp.objective = pulp.LpAffineExpression()
            for i, (s, p, var) in enumerate(pair_vars):
                cp += (var == (1 if m[s - 1] == p else 0)), '__verif_pin_%d' % i
            _ORIG_SOLVE(cp, solver)
            if cp.status == 1:
                out[m] = True if point_is_feasible(cp) else None
            elif cp.status == -1:
                out[m] = False
            else:
                out[m] = None
    finally:
        for v, val in saved:
            v.varValue = val
        prob.status, prob.sol_status = st, sst
    return out


# ------------------------------------------------------------------ audit hook

def _norm(path):
    """Paths as the audit reports them: absolute (resolved against the working directory at the time of the
    event) and without redundant separators, so that 'dir/', 'dir//0.txt' and '../x/dir' compare equal."""
    try:
        return os.path.abspath(os.fsdecode(path))
    except Exception:
        return str(path)


class FsAudit:
    def __init__(self):
        self.on = False
        self.events = []
        self.installed = False

    def install(self):
        if self.installed:
            return
        self.installed = True
        aud = self

        def hook(event, args):
            if not aud.on:
                return
            try:
                if event == 'open':
                    path, mode, flags = args[0], args[1], args[2]
                    if isinstance(path, int):
                        return      # re-opening an already open descriptor (os.fdopen) creates nothing
                    w = False
                    if isinstance(mode, str):
                        w = any(c in mode for c in 'wax+')
                    elif isinstance(flags, int):
                        w = bool(flags & (os.O_WRONLY | os.O_RDWR | os.O_CREAT | os.O_APPEND))
                    aud.events.append(('open_w' if w else 'open_r', _norm(path)))
                elif event in ('os.mkdir', 'os.rmdir', 'os.remove', 'os.rename',
                               'os.symlink', 'os.link', 'os.truncate', 'shutil.copyfile',
                               'shutil.move', 'os.chmod'):
                    aud.events.append((event, _norm(args[0])))
            except Exception:
                pass
        sys.addaudithook(hook)

    def start(self):
        self.events = []
        self.on = True

    def stop(self):
        self.on = False
        return list(self.events)


FS = FsAudit()


class ChoiceTap:
    """Draw-site tap: records the probability vector handed to numpy.random.choice
    when the generator draws a preference list (C17: the weights *used for drawing*)."""

    def __init__(self):
        self.installed = False
        self.on = False
        self.records = []

    def install(self):
        if self.installed:
            return
        import numpy as np
        orig = np.random.choice
        tap = self

        def choice(a, size=None, replace=True, p=None):
            if tap.on and p is not None:
                try:
                    arr = list(a) if hasattr(a, '__len__') else None
                    if arr is not None and 0 not in [int(x) for x in arr]:
                        tap.records.append([float(x) for x in p])
                except Exception:
                    pass
            return orig(a, size, replace, p)
        np.random.choice = choice
        self.installed = True

    def start(self):
        self.records = []
        self.on = True

    def stop(self):
        self.on = False
        return list(self.records)


CHOICE = ChoiceTap()
