#!/venv/bin/python
"""Regenerate the seeded-changes table of DESIGN.md (between the SEEDTABLE markers)."""
import glob, json, os, re
V = os.path.dirname(os.path.dirname(os.path.abspath(__file__)))
rows = []
for meta in sorted(glob.glob(os.path.join(V, 'seeded', '*', 'meta.json'))):
    m = json.load(open(meta))
    name = os.path.basename(os.path.dirname(meta))
    notes = m.get('summary') or ''
    if not notes:
        n = os.path.join(os.path.dirname(meta), 'notes.md')
        if os.path.exists(n):
            txt = [l.strip('# ').strip() for l in open(n) if l.strip()]
            notes = txt[0][:110] if txt else ''
    own = m['checks'][m['property']]
    caught = 'caught' if own['exit'] == 1 else ('INCONCLUSIVE' if own['exit'] == 2 else 'MISSED')
    if m.get('caught_after_strengthening'):
        caught = ('caught' if own['exit'] == 1 else 'NOT caught') + ' after strengthening (%s)' % m['caught_after_strengthening']
    if m.get('verdict_note'):
        caught = ('caught' if own['exit'] == 1 else 'silent') + ': ' + m['verdict_note']
    also = ', '.join(m.get('also_detected_by', []))
    first = re.sub(r'\s+', ' ', own.get('first_finding', ''))[:90].replace('|', '/')
    rows.append('| %s | %s | %s | %s%s |' % (name, notes.replace('|', '/'), caught, first, (' (also: %s)' % also) if also else ''))
table = '| change | what it does (author\'s note) | owning quick check | first finding |\n|---|---|---|---|\n' + '\n'.join(rows) + '\n'
p = os.path.join(V, 'DESIGN.md')
s = open(p).read()
B, E = '<!-- SEEDTABLE-BEGIN -->\n', '<!-- SEEDTABLE-END -->\n'
if B in s:
    s = s[:s.index(B) + len(B)] + table + s[s.index(E):]
else:
    s += '\n' + B + table + E
open(p, 'w').write(s)
print('%d seeded changes tabulated' % len(rows))
