"""Deliberate property-breaking edits used by `./vcheck selftest`.

Each mutant is (name, property, file, old, new): a small semantic change to the
current tree that still passes the repository's 35 tests.  The self-test applies
it to a scratch copy of $VERIF_REPO (never to /repo), runs the property's quick
check with VERIF_REPO pointing at the copy and expects exit 1.
"""
LP = 'matchingproblems/solver/lp_solver.py'
MODEL = 'matchingproblems/solver/model.py'
FILEIO = 'matchingproblems/solver/fileIO.py'
BF = 'matchingproblems/solver/brute_force_solver.py'
OPT = 'matchingproblems/solver/options_parser.py'
SOLVER = 'matchingproblems/solver/solver.py'
GSH = 'matchingproblems/generator/generator_shared.py'
GHR = 'matchingproblems/generator/generator_ha_sm_hr.py'
GSPA = 'matchingproblems/generator/generator_spa.py'
GOPT = 'matchingproblems/generator/instance_options_parser.py'

MUTANTS = [
    # ---------------------------------------------------------------- C01
    ('c01_drop_lec_uq', 'C01', LP,
     '<= self.model.lec_upper_quotas[lec_index]),',
     '<= self.model.lec_upper_quotas[lec_index] + 1),'),
    ('c01_closure_uq_uses_lq', 'C01', LP,
     'pc_uq_exp += self.model.project_closures[proj_index] * uq',
     'pc_uq_exp += self.model.project_closures[proj_index] * lq'),
    ('c01_hospital_lq_as_lecturer_lq_dropped', 'C01', FILEIO,
     'model.lec_lower_quotas.append(int(line_split[1]))\n                    model.lec_targets.append(int(line_split[2]))',
     'model.lec_lower_quotas.append(0)\n                    model.lec_targets.append(int(line_split[2]))'),
    ('c01_proj_lq_off_under_stab', 'C01', LP,
     '                self.prob += (proj_vars >= lq, "proj_lq_{}".format(proj_index))',
     '                if not self.extra_constraints[Extra_constraints.STAB] or lq < 2:\n                    self.prob += (proj_vars >= lq, "proj_lq_{}".format(proj_index))'),
    # ---------------------------------------------------------------- C02
    ('c02_tight_minsize_bound', 'C02', LP,
     '"obj_minsize", \n                lowBound = 0,',
     '"obj_minsize", \n                lowBound = 1,'),
    ('c02_abs_diff_bound_target', 'C02', MODEL,
     '"abs_lec_diff_{}".format(lec_index), \n                    lowBound = 0, \n                    upBound = lec_upper_quota,',
     '"abs_lec_diff_{}".format(lec_index), \n                    lowBound = 0, \n                    upBound = self.lec_targets[lec_index],'),
    ('c02_mincost_bound_regression', 'C02', LP,
     '''                  student_multiplier + self.model.num_students *
                  self.model.num_students * lecturer_multiplier,
                cat = "Integer")
        sum_costs_exp = LpAffineExpression()
        for pair in list(chain.from_iterable(self.model.pairs)):
            sum_costs_exp += pair.lp_var * pair.rank_student * student_multiplier
            # May not''',
     '''                  student_multiplier + self.model.num_students *
                  self.model.num_lecturers * lecturer_multiplier,
                cat = "Integer")
        sum_costs_exp = LpAffineExpression()
        for pair in list(chain.from_iterable(self.model.pairs)):
            sum_costs_exp += pair.lp_var * pair.rank_student * student_multiplier
            # May not'''),
    # ---------------------------------------------------------------- C03
    ('c03_greedy_off_by_one', 'C03', LP,
     'for r in range(1, min(up_to_postition_inclusive + 1, len(self.model.rank_lists) + 1)):',
     'for r in range(1, min(up_to_postition_inclusive, len(self.model.rank_lists)) + (1 if len(additional_arguments) < 1 else 0)):'),
    ('c03_generous_default_cutoff_2', 'C03', LP,
     'up_to_postition_inclusive = 1 if len(additional_arguments) < 1 else additional_arguments[0]',
     'up_to_postition_inclusive = 2 if len(additional_arguments) < 1 else additional_arguments[0]'),
    ('c03_mincost_default_lecturer_multiplier_1', 'C03', LP,
     '''        lecturer_multiplier = 0 if len(cost_multipliers) < 2 else cost_multipliers[1]
        self.info_string += '- optimisation: minimising sum of ranks\\n\'''',
     '''        lecturer_multiplier = 1 if len(cost_multipliers) < 2 else cost_multipliers[1]
        self.info_string += '- optimisation: minimising sum of ranks\\n\''''),
    ('c03_minsqcost_lecturer_not_squared', 'C03', LP,
     'sum_costs_exp += pair.lp_var * pair.rank_lecturer**2 * lecturer_multiplier',
     'sum_costs_exp += pair.lp_var * pair.rank_lecturer * lecturer_multiplier'),
    ('c03_lmb_skips_last_lecturer', 'C03', LP,
     '''        for lec_index in range(self.model.num_lecturers):
            self.prob += (obj >= self.model.abs_lec_diff[lec_index])''',
     '''        for lec_index in range(max(1, self.model.num_lecturers - 1)):
            self.prob += (obj >= self.model.abs_lec_diff[lec_index])'''),
    ('c03_lsb_overload_only', 'C03', LP,
     'self.prob += (self.model.abs_lec_diff[lec_index] >= \n                self.model.lec_underload[lec_index])',
     'pass'),
    # ---------------------------------------------------------------- C04
    ('c04_no_freeze_after_max', 'C04', LP,
     '            self.prob += objective_function >= objective_function.varValue',
     '            self.prob += objective_function >= objective_function.varValue - 1'),
    ('c04_reversed_order', 'C04', OPT,
     '''        ordered_opts = temp
        return ordered_opts, count''',
     '''        ordered_opts = temp if len(temp) < 3 else temp[:1] + temp[:0:-1]
        return ordered_opts, count'''),
    ('c04_freeze_min_rounds_up', 'C04', LP,
     '            self.prob += objective_function <= objective_function.varValue\n',
     '            self.prob += objective_function <= objective_function.varValue + (1 if objective_function.name.startswith("obj_generous") else 0)\n'),
    # ---------------------------------------------------------------- C05
    ('c05_lec_rank_strict', 'C05', LP,
     'if (lec_pair.rank_lecturer <= aim_rank and ',
     'if (lec_pair.rank_lecturer < aim_rank and '),
    ('c05_no_self_exclusion', 'C05', LP,
     'if (lec_pair.rank_lecturer <= aim_rank and \n                        not lec_pair.studentID == pair.studentID):',
     'if (lec_pair.rank_lecturer <= aim_rank):'),
    ('c05_gamma_without_beta', 'C05', LP,
     '                gamma_exp -= pair.beta_var\n',
     '                gamma_exp -= (pair.beta_var if self.model.proj_upper_quotas[pair.project_index] < 2 else 0)\n'),
    ('c05_wants_to_move_by_position', 'C05', LP,
     '''                    if index < st_pref_length:
                        current_rank = pairs_row[index].rank_student''',
     '''                    if index < st_pref_length:
                        current_rank = index + 1'''),
    # ---------------------------------------------------------------- C06
    ('c06_3c_not_strict', 'C06', MODEL,
     'pair.rank_lecturer < worst_rank_projects[pair.project_index]):',
     'pair.rank_lecturer <= worst_rank_projects[pair.project_index]):'),
    ('c06_3b_without_in_Ml', 'C06', MODEL,
     '((not assigned_pair_i == None and assigned_pair_i.lecturer_index == pair.lecturer_index) or',
     '((not assigned_pair_i == None and assigned_pair_i.project_index == pair.project_index) or'),
    ('c06_p_undersubscribed_lower_quota', 'C06', MODEL,
     'p_undersubscribed = p_num_assignments[pair.project_index] < self.proj_upper_quotas[pair.project_index]',
     'p_undersubscribed = p_num_assignments[pair.project_index] < max(1, self.proj_upper_quotas[pair.project_index])'),
    # ---------------------------------------------------------------- C07
    ('c07_size_reset_ge', 'C07', BF,
     'if size > self.optimal_size:',
     'if size >= self.optimal_size and size > 1:'),
    ('c07_greedy_only_at_max_size', 'C07', BF,
     '''                # save greedy
                if self.moregre(profile, self.optimal_greedyprofile):''',
     '''                # save greedy
                if size == self.optimal_size and self.moregre(profile, self.optimal_greedyprofile):'''),
    ('c07_init_max_diff_zero_based', 'C07', BF,
     'self.optimal_max_lec_abs_diff = self.model.get_max_lec_upper_quota()',
     'self.optimal_max_lec_abs_diff = max(self.model.lec_targets)'),
    ('c07_closure_ignores_upper', 'C07', BF,
     'self.model.proj_upper_quotas[proj_index] < \n                    proj_num_allocations[proj_index]  and',
     'self.model.proj_upper_quotas[proj_index] + 1 < \n                    proj_num_allocations[proj_index]  and'),
    # ---------------------------------------------------------------- C08
    ('c08_length_excludes_pmax', 'C08', GSH,
     'minpreflistlength, maxpreflistlength + 1)',
     'minpreflistlength, max(minpreflistlength + 1, maxpreflistlength))'),
    ('c08_remainder_to_last', 'C08', GSH,
     '        if i < remainder:\n            quotas[i] += 1',
     '        if i >= n - remainder:\n            quotas[i] += 1'),
    ('c08_ties_swapped_sides', 'C08', GHR,
     'pref_lists_res, args.n2, args.ties2)',
     'pref_lists_res, args.n2, args.ties1)'),
    ('c08_numbered_from_one', 'C08', GSPA,
     "f = open(args.outputdirectory + '/' + str(instance_number) + ",
     "f = open(args.outputdirectory + '/' + str(instance_number + (1 if args.numberinstances > 3 else 0)) + "),
    # ---------------------------------------------------------------- C09
    ('c09_lecturer_line_without_target_when_zero', 'C09', GSPA,
     '''                str(lec_lower_quotas[z]) + ": " + str(lec_targets[z]) + ": " + ''',
     '''                str(lec_lower_quotas[z]) + ": " + (str(lec_targets[z]) + ": " if lec_upper_quotas[z] else "") + '''),
    ('c09_reader_section_boundary', 'C09', FILEIO,
     'model.num_lecturers + 1 and ',
     'max(model.num_lecturers, 2) and '),
    # ---------------------------------------------------------------- C10
    ('c10_rank_increments_inside_tie', 'C10', FILEIO,
     '''            simp_ranks.append(rank)
            if not in_tie:
                rank+=1''',
     '''            simp_ranks.append(rank)
            if not in_tie or len(simp_ranks) > 4:
                rank+=1'''),
    ('c10_target_from_lower_quota', 'C10', FILEIO,
     '''                    model.lec_targets.append(int(line_split[2]))
                    model.lec_upper_quotas.append(int(line_split[2]))''',
     '''                    model.lec_targets.append(int(line_split[2]) if int(line_split[1]) == 0 else int(line_split[1]))
                    model.lec_upper_quotas.append(int(line_split[2]))'''),
    ('c10_in_tie_never_reset', 'C10', FILEIO,
     '''            rank+=1
            in_tie = False''',
     '''            rank+=1
            in_tie = len(simp_ranks) > 3'''),
    # ---------------------------------------------------------------- C11
    ('c11_degree_ignores_rank1', 'C11', MODEL,
     '''        max_matched_rank = 0
        for pair in pair_assignments:
            if pair.rank_student > max_matched_rank:''',
     '''        max_matched_rank = 0
        for pair in pair_assignments[:3]:
            if pair.rank_student > max_matched_rank:'''),
    ('c11_capacity_shows_lower', 'C11', MODEL,
     "str(self.lec_upper_quotas[k]) + ' (' + ",
     "str(self.lec_upper_quotas[min(k, 2)]) + ' (' + "),
    ('c11_project_listing_lecturer_index', 'C11', MODEL,
     '''            p_assignments[pair.project_index] += ('s_' + str(pair.studentID) + ''',
     '''            p_assignments[pair.project_index if pair.project_index < 3 else pair.lecturer_index] += ('s_' + str(pair.studentID) + '''),
    # ---------------------------------------------------------------- C12
    ('c12_duplicate_when_two_projects', 'C12', GSPA,
     '''            student_lec_list = []
            for lec_index, lec_present in enumerate(ranked_lecs):
                if lec_present:
                    student_lec_list.append(lec_index + 1)''',
     '''            student_lec_list = []
            for lec_index, lec_present in enumerate(ranked_lecs):
                if lec_present:
                    student_lec_list.append(lec_index + 1)
            if len(student_lec_list) > 3:
                student_lec_list.append(student_lec_list[0])'''),
    ('c12_inversion_by_index', 'C12', GSH,
     'prefs_lists_agent2[agent1_num - 1].append(i + 1)',
     'prefs_lists_agent2[agent1_num - 1].append(i + 1 if i < 8 else i)'),
    # ---------------------------------------------------------------- C13
    ('c13_close_paren_lost_at_end', 'C13', GSH,
     '''        elif i == len(pref_list) - 1 and in_tie:
            string_pref.append(str(pref_list[i]) + ')')''',
     '''        elif i == len(pref_list) - 1 and in_tie and i < 8:
            string_pref.append(str(pref_list[i]) + ')')'''),
    ('c13_reader_close_no_increment', 'C13', FILEIO,
     '''            simp_ranks.append(rank)
            rank+=1
            in_tie = False''',
     '''            simp_ranks.append(rank)
            rank+= 1 if len(simp_ranks) < 7 else 2
            in_tie = False'''),
    # ---------------------------------------------------------------- C14
    ('c14_no_early_exit', 'C14', LP,
     '''        # Nothing more is solved once an earlier solve has failed.
        if self.failed_status is not None:
            return None
''',
     '''        # Nothing more is solved once an earlier solve has failed.
        if self.failed_status is not None and self.failed_status != 'Undefined':
            self.failed_status = None
'''),
    ('c14_ignore_sol_status', 'C14', LP,
     'if (self.prob.status == LpStatusOptimal and \n            self.prob.sol_status == LpSolutionOptimal):',
     'if (self.prob.status == LpStatusOptimal):'),
    ('c14_status_of_last_solve', 'C14', LP,
     '''        if self.failed_status is not None:
            return self.failed_status
        return LpStatus[self.prob.status] ''',
     '''        return LpStatus[self.prob.status] '''),
    ('c14_timeout_less_than', 'C14', MODEL,
     'if self.pulp_status == self.NOTSOLVED_PULP_STATUS or total_s > self.time_limit: ',
     'if total_s > self.time_limit: '),
    # ---------------------------------------------------------------- C15
    ('c15_pmax_check_removed_for_spa', 'C15', GOPT,
     '        if args.maxpreflistlength > args.n2:',
     '        if args.maxpreflistlength > args.n2 and args.n3 is None:'),
    ('c15_ties_upper_only', 'C15', GOPT,
     '        if args.ties2 < 0.0 or args.ties2 > 1.0:',
     '        if args.ties2 > 1.0:'),
    ('c15_banned_entry_dropped', 'C15', GOPT,
     '''                (args.n3, 'n3'),
                (args.lecturerlowerquotas, 'lecturerlowerquotas'),
                (args.lecturerupperquotas, 'lecturerupperquotas'),
                (args.lecturertargets, 'lecturertargets'),
                ])

        # SPA-S''',
     '''                (args.n3, 'n3'),
                (args.lecturerlowerquotas, 'lecturerlowerquotas'),
                (args.lecturerupperquotas, 'lecturerupperquotas'),
                ])

        # SPA-S'''),
    ('c15_mkdir_before_bounds', 'C15', GOPT,
     '''        self.set_defaults(matching_problem, args)
        self.check_bounds(parser, args)''',
     '''        self.set_defaults(matching_problem, args)
        import os
        if args.lowerquotas > 0 and not os.path.exists(args.outputdirectory):
            os.makedirs(args.outputdirectory)
        self.check_bounds(parser, args)'''),
    # ---------------------------------------------------------------- C16
    ('c16_range_check_ge', 'C16', OPT,
     'if ordering < 1 or ordering > len(opts):',
     'if ordering < 0 or ordering > len(opts):'),
    ('c16_extras_slice', 'C16', OPT,
     'ordered_opts[arguments[0] - 1] = (opt, arguments[1:])',
     'ordered_opts[arguments[0] - 1] = (opt, arguments[1:3] if len(arguments) < 3 else arguments[2:])'),
    ('c16_stab_check_after_import', 'C16', SOLVER,
     '''        self.options_parser.parse(args)
        self.model = import_model(''',
     '''        try:
            self.options_parser.parse(args)
        except SystemExit:
            if '-stab' in args and '-twopl' not in args:
                open(args[args.index('-f') + 1]).close()
            raise
        self.model = import_model('''),
    # ---------------------------------------------------------------- C17
    ('c17_divide_by_n', 'C17', GSH,
     'distribution[x] = 1.0 + float(x * (skew - 1)/(number_agents - 1))',
     'distribution[x] = 1.0 + float(x * (skew - 1)/(number_agents - 1 if number_agents < 40 else number_agents))'),
    ('c17_small_skew_clamped', 'C17', GSH,
     '    distribution[0] = 1.0\n',
     '    distribution[0] = 1.0\n    skew = max(skew, 0.05)\n'),
    # ---------------------------------------------------------------- C18
    ('c18_getter_appends_info', 'C18', MODEL,
     '''        results += self.info_string + '\\n\'''',
     '''        if short_or_long == Output_type.LONG and 'load' in self.info_string:
            self.info_string += ' '
        results += self.info_string + '\\n\''''),
    ('c18_debug_rounds_in_place', 'C18', MODEL,
     '''            for var in self.project_closures:
                if (var.varValue is not None and var.varValue > 0.9):''',
     '''            for var in self.project_closures:
                if var.varValue is not None:
                    self.proj_upper_quotas[0] = max(self.proj_upper_quotas[0], 1)
                if (var.varValue is not None and var.varValue > 0.9):'''),
    ('c18_resolve_keeps_time_limit_state', 'C18', SOLVER,
     '''        self.model.time_limit = timeLimit
''',
     '''        self.model.time_limit = timeLimit
        self._solves = getattr(self, '_solves', 0) + 1
        if self._solves > 1 and self.options_parser.instance_options[Instance_options.PC]:
            self.model.proj_lower_quotas = [0] * self.model.num_projects
'''),
    # ---------------------------------------------------------------- environment / representation (round 5 lessons)
    ('c10_filename_normalised_textually', 'C10', OPT,
     "        self.filename = args.filename\n",
     "        self.filename = __import__('os').path.normpath(args.filename)\n"),
    ('c05_project_ids_compared_by_identity', 'C05', LP,
     "                        if lec_pair.projectID == pair.projectID:",
     "                        if lec_pair.projectID is pair.projectID:"),
    ('c18_threads_passed_positionally_as_gap', 'C18', LP,
     """        self.solver = pulp.PULP_CBC_CMD(
            msg=msg, 
            timeLimit=timeLimit, 
            threads=threads)""",
     """        self.solver = pulp.PULP_CBC_CMD(True, msg, timeLimit, threads)"""),
    ('c15_file_name_built_with_percent_template', 'C15', GHR,
     """            f = open(args.outputdirectory + '/' + str(instance_number) + 
            '.txt', 'w')""",
     """            f = open((args.outputdirectory + '/%d.txt') % instance_number, 'w')"""),
    ('c08_quotas_by_float_division', 'C08', GSH,
     'quotient = int(sum_q // n)',
     'quotient = int(sum_q / n)'),
    ('c08_end_of_list_test_by_identity', 'C08', GSH,
     "        elif i == len(pref_list) - 1 and in_tie:",
     "        elif i is (len(pref_list) - 1) and in_tie:"),
]
