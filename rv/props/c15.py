"""C15 - the generator accepts every documented argument set and cleanly rejects invalid ones."""
import os
import random

from . import lpcommon as lc
from .. import engine as en
from .. import genengine as ge

ID = 'C15'
ANCHOR_FILES = ['generator/instance_options_parser.py', 'generator/generator.py']
LEVEL = 'exploration'
EVAL_COUNTER = 'generator_calls'
RULE = ('for each random legal vector (ha/sm/hr/spa; optional parameters sometimes present; boundary values pmin=pmax, pmax=n2, '
        'uq=n2, t in {0,1}): (a) Generator(args) must return normally and write the files; (b) EVERY single-fault perturbation '
        'from the statement\'s list (each required parameter removed incl. -numinst/-o/-mp; each inapplicable parameter added; each '
        'bound violated at 0/-1/bound+-1) must end in SystemExit(2) with a usage message on stderr, raise no other exception, and '
        '- watched by a sys.addaudithook filesystem monitor - open nothing for writing and create no directory before the exit; '
        'the output directory must not exist afterwards; non-trivial = distinct (type, perturbation kind, vector); evaluations = '
        'Generator calls')
ASSUMPTIONS = ['audit events open/os.mkdir/os.remove/os.rename cover the ways the generator can touch the filesystem']


def plan(tier):
    return {'cases_per_shard': 130 if tier == 'quick' else 2600,
            'time_cap_s': 90 if tier == 'quick' else 560}


def run_case(cs, ctx):
    rng = random.Random(cs)
    v = ge.legal_vector(rng, max_n1=8, max_n2=8, max_n3=6)
    v['numinst'] = rng.randint(1, 2)
    if ctx.shard == 1 and not getattr(ctx, '_did_1000', False):
        ctx._did_1000 = True
        v['numinst'] = 1003
        v['n1'] = min(v['n1'], 3)
        ctx.cov('legal_with_more_than_1000_instances')
    outdir = ge.fresh_outdir(ctx.workdir, 'c15')
    argv = ge.to_argv(v, outdir, rng)
    case = {'cs': cs, 'vector': v, 'argv': [a if a != outdir else '<outdir>' for a in argv]}
    res = ge.run_generator(argv, cs)
    ctx.cnt('generator_calls')
    ctx.cnt('legal_calls')
    ctx.cov('legal_' + v['mp'])
    names = ge.list_outputs(outdir)
    if res['exit'] is not None or res['exc'] is not None:
        ctx.finding(en.F('C15', 'legal_accepted', 'legal %s vector not accepted: exit=%r exc=%r stderr=%r' % (
            v['mp'], res['exit'], res['exc'], res['stderr'][-200:]), exc=res['exc'], mp=v['mp']), case)
    elif names != sorted('%d.txt' % i for i in range(v['numinst'])):
        ctx.finding(en.F('C15', 'legal_produces_files', 'legal vector accepted but the directory holds %s' % (names,)), case)
    for kind, w in ge.perturbations(v, rng):
        outdir = ge.fresh_outdir(ctx.workdir, 'c15p')
        argv = ge.to_argv(w, outdir, rng)
        c2 = {'cs': cs, 'kind': kind, 'vector': {k: x for k, x in w.items()},
              'argv': [a if a != outdir else '<outdir>' for a in argv]}
        res = ge.run_generator(argv, cs)
        ctx.cnt('generator_calls')
        ctx.cnt('perturbed_calls')
        ctx.cov('%s_%s' % (v['mp'], kind))
        ctx.nontrivial(en.sp.shash([v['mp'], kind, {k: x for k, x in w.items() if k != '_omit'}]))
        writes = [e for e in res['fs'] if e[0] != 'open_r']
        if res['exc'] is not None:
            ctx.finding(en.F('C15', 'rejects_with_usage_error', '%s/%s: raised %s: %s instead of a usage error' % (
                v['mp'], kind, res['exc']['type'], res['exc']['msg']), exc=res['exc'], mp=v['mp'], kind=kind), c2)
        elif res['exit'] is None:
            ctx.finding(en.F('C15', 'rejects_with_usage_error', '%s/%s: invalid argument set was accepted (files: %s)' % (
                v['mp'], kind, ge.list_outputs(outdir)), mp=v['mp'], kind=kind), c2)
        elif res['exit'] != 2 or 'usage' not in res['stderr'].lower():
            ctx.finding(en.F('C15', 'rejects_with_usage_error', '%s/%s: exit code %r, stderr %r' % (
                v['mp'], kind, res['exit'], res['stderr'][-160:]), mp=v['mp'], kind=kind), c2)
        if res['exit'] is not None or res['exc'] is not None:
            ctx.cnt('fs_audited_rejections')
            if writes or os.path.exists(outdir) or os.path.exists(os.path.dirname(outdir)):
                ctx.finding(en.F('C15', 'no_write_before_rejection', '%s/%s: filesystem touched before the rejection: %s; '
                                 'output directory exists: %s' % (v['mp'], kind, writes[:4], os.path.exists(outdir)),
                                 mp=v['mp'], kind=kind), c2)
    ctx.sample({'legal_argv': case['argv'], 'perturbation_kinds': [k for k, _ in ge.perturbations(v, random.Random(0))]}, cap=2)


def replay(w, ctx):
    run_case(w['case']['cs'], ctx)


KINDS_MIN = 25


def floors(m, tier):
    out = []
    c, cov = m['counters'], m['cover']
    need = 14000 if tier == 'quick' else 300000
    if c.get('perturbed_calls', 0) < need:
        out.append('only %d perturbed calls' % c.get('perturbed_calls', 0))
    for mp in ('ha', 'sm', 'hr', 'spa'):
        if cov.get('legal_' + mp, 0) < 50:
            out.append('only %d legal %s vectors' % (cov.get('legal_' + mp, 0), mp))
    kinds = [k for k in cov if not k.startswith('legal_')]
    if len(kinds) < 80:
        out.append('only %d distinct (type, perturbation kind) classes' % len(kinds))
    low = [k for k in kinds if cov[k] < KINDS_MIN]
    if low:
        out.append('perturbation classes below the floor of %d: %s' % (KINDS_MIN, low[:6]))
    return out
