"""C14 - a run that was cut short or proved infeasible never presents a matching."""
import itertools
import os
import random
import time

from . import lpcommon as lc
from .. import engine as en
from .. import genengine as ge
from .. import outparse as op
from .. import refmodel as rm
from .. import spec as sp
from ..taps import TAP, VirtualClock

ID = 'C14'
ANCHOR_FILES = ['solver/lp_solver.py', 'solver/model.py', 'solver/solver.py']
LEVEL = 'fault_enumeration'
EVAL_COUNTER = 'schedules_executed'
RULE = ('for each (instance, criteria sequence) a clean traced run gives K, the number of underlying solves (per-rank solves of '
        'generous/greedy included); then ENUMERATED at the LP tap: every ordinal 0..K-1 x {Infeasible, Unbounded, Undefined, Not '
        'Solved} x {transient, persistent} x value policy {PuLP default zeros, stale values, arbitrary 0/1} without a time limit, '
        'the same plus the time-limit stop with an incumbent (status Optimal, sol_status "Solution Found", a feasible but '
        'deliberately sub-optimal solution) with a time limit, time-related stops costing limit-10% and limit+10% of virtual '
        'time; and pairs of faults (all in thorough, 40 sampled per sequence in quick); a virtual clock replaces datetime in '
        'solver.py so no verdict depends on wall time; oracle from the trace the tap recorded: if any solve ended without a '
        'proven optimum, neither result format contains a matching, statistic or listing, nothing raises, and the status shown is '
        'the first non-optimal one (no limit) or Timeout when due (either where both apply); shard 0 adds a real-fault workload '
        '(generated SPA 120x50x25, -stab -maxsize, real CBC with time limits) judged by what the tap saw; non-trivial = schedule '
        'whose fault was actually applied; distinct = distinct (sequence, schedule); evaluations = schedules executed')
ASSUMPTIONS = ['a failing back end is modelled through PuLP\'s own assignStatus/varValue; status pairs used are ones PuLP produces',
               'virtual clock: model creation and each clean solve cost ~1 ms']
KINDS = ['Infeasible', 'Unbounded', 'Undefined', 'Not Solved']
POLICIES = ['zeros', 'stale', 'random']
LIMIT = 0.5
NAME = {0: 'Not Solved', 1: 'Optimal', -1: 'Infeasible', -2: 'Unbounded', -3: 'Undefined'}


def plan(tier):
    return {'cases_per_shard': 8 if tier == 'quick' else 100,
            'time_cap_s': 90 if tier == 'quick' else 560, 'watchdog_s': 400 if tier == 'quick' else 2400}


def judge(ex, limit):
    """Oracle of C14 over one faulted execution.  Returns (problems, info)."""
    probs = []
    ev = ex['events']
    unproven = [e for e in ev if not (e['status'] == 1 and e['sol_status'] == 1)]
    info = {'unproven': len(unproven), 'applied': sum(1 for e in ev if e['fault'])}
    if not unproven:
        return probs, info
    if ex['exc'] is not None:
        probs.append(('raises', '%s in %s: %s [%s]' % (ex['exc']['type'], ex['exc']['phase'], ex['exc']['msg'], ex['exc']['where'])))
        return probs, info
    first = unproven[0]
    first_name = NAME[first['status']] if first['status'] != 1 else 'Not Solved'
    unsolved = any(e['status'] == 0 or (e['status'] == 1 and e['sol_status'] != 1) for e in unproven)
    first_unsolved = first['status'] == 0 or (first['status'] == 1 and first['sol_status'] != 1)
    total = ex.get('virtual_total_s', ex.get('wall_total_s'))
    if total is None:
        try:
            mdl = ex['solver'].model
            total = (mdl.time_after_solve - mdl.time_start).total_seconds()
        except Exception:
            pass
    timeout_due = limit is not None and (unsolved or (total is not None and total > limit))
    info.update(first=first_name, timeout_due=timeout_due, total_virtual_s=total)
    for nm in ('short', 'long'):
        txt = ex[nm]
        if txt is None:
            continue
        try:
            pr = op.parse_results(txt)
        except op.ParseError as e:
            probs.append(('presents_no_matching', '%s results do not parse: %s' % (nm, e)))
            continue
        if pr['any_statistic']:
            shown = [k for k in pr['kv']] + [s for s in ('students', 'projects', 'lecturers') if pr[s] is not None]
            probs.append(('presents_no_matching', '%s results present %s although solve #%d ended %s/%s (status shown: %s)' % (
                nm, shown[:4], first['ordinal'], NAME[first['status']], first['sol_status'], pr['status'] or ('Timeout' if pr['timeout'] else None))))
            continue
        shown = 'Timeout' if pr['timeout'] is not None else pr['status']
        if timeout_due and first_unsolved:
            ok = shown == 'Timeout'          # "Timeout when ... left unsolved"
        elif timeout_due:
            ok = shown in ('Timeout', first_name)   # both clauses apply: either display
        else:
            ok = shown == first_name
        if not ok:
            probs.append(('status_shown', '%s results show %r; first non-optimal status of the trace is %r, Timeout %s' % (
                nm, shown, first_name, 'due' if timeout_due else 'not due (limit %s, virtual total %s)' % (limit, total))))
    return probs, info


def schedules_for(K, tier, rng):
    """Enumerate fault schedules for a sequence with K solves."""
    out = []
    for k in range(K):
        for persistent in (False, True):
            for pol in POLICIES:
                for kind in KINDS:
                    out.append((None, [{'at': k, 'kind': kind, 'persistent': persistent, 'values': pol}]))
                    for tf in ((0.9, 1.1) if kind == 'Not Solved' else (0.9,)):
                        out.append((LIMIT, [{'at': k, 'kind': kind, 'persistent': persistent, 'values': pol, 'tfrac': tf}]))
            for tf in (0.9, 1.1):
                out.append((LIMIT, [{'at': k, 'kind': 'Incumbent', 'persistent': persistent, 'tfrac': tf}]))
    # boundary value: a time limit of 0 (every run exceeds it); only with the fault at the first solve,
    # so that no real solve runs under a zero limit before it
    for kind in KINDS + ['Incumbent']:
        for persistent in (False, True):
            out.append((0, [{'at': 0, 'kind': kind, 'persistent': persistent, 'values': 'zeros', 'tfrac': 1.0}]))
    pairs = []
    kinds5 = KINDS + ['Incumbent']
    for k1, k2 in itertools.combinations(range(K), 2):
        for a in kinds5:
            for b in kinds5:
                lim = LIMIT if 'Incumbent' in (a, b) else rng.choice([None, LIMIT])
                pairs.append((lim, [{'at': k1, 'kind': a, 'persistent': False, 'values': rng.choice(POLICIES), 'tfrac': rng.choice([0.9, 1.1])},
                                    {'at': k2, 'kind': b, 'persistent': rng.random() < 0.5, 'values': rng.choice(POLICIES), 'tfrac': rng.choice([0.9, 1.1])}]))
    # two faults at the same solve do not exist; a transient fault followed by a clean retry is the k1<k2 case
    if tier == 'quick' and len(pairs) > 40:
        pairs = rng.sample(pairs, 40)
    return out, pairs


def run_sequence(cs, ctx):
    rng = random.Random(cs)
    # pick a feasible (instance, criteria sequence) with a known number of solves
    for _ in range(30):
        spec = sp.make_spec(rng, allow_empty_lists=False, shape=rng.choice(['long_lists', 'long_lists', 'dense', 'no_ties', 'lowerq', 'tight_lecturer', 'one_lecturer']))
        opts = sp.make_opts(rng, spec, ncrit=rng.choice([0, 1, 1, 2, 2, 3, 3]),
                            crit_pool=['gen', 'gre', 'gen', 'gre', 'maxsize', 'minsize', 'mincost', 'minsqcost', 'lmb', 'lsb', 'mincostlsb'])
        if rng.random() < 0.12:
            # a criterion whose objective is constant (both multipliers 0): its objective variable is fixed by its bounds
            hit = False
            for c in opts['crits']:
                if c[0] in ('mincost', 'minsqcost', 'mincostlsb'):
                    c[2] = [0, 0]
                    hit = True
            if not hit and len(opts['crits']) < 3:
                used = {c[1] for c in opts['crits']}
                pos = next(p for p in range(1, 10) if p not in used)
                opts['crits'].append([rng.choice(['mincost', 'minsqcost', 'mincostlsb']), pos, [0, 0]])
                hit = True
            if hit:
                ctx.cnt('sequences_with_a_constant_objective')
        ref = en.reference(spec, opts)
        if ref['enumerable'] and ref['feasible']:
            break
    else:
        ctx.cnt('no_feasible_sequence_found')
        return
    text = sp.render(spec, rng=rng, second_side=True, noise=False)
    base = {'cs': cs, 'spec': spec, 'opts': opts, 'file': text}
    clean = en.run_lp(spec, opts, ctx.workdir, rng, inject=False, text=text, clock=VirtualClock(), getters=('short', 'long'))
    K = len(clean['events'])
    if clean['exc'] is not None or K == 0 or any(e['status'] != 1 for e in clean['events']):
        ctx.cnt('unobservable_clean_run_not_optimal')
        return
    argv = clean['argv']
    ctx.cnt('sequences')
    ctx.cov('K_%d' % min(K, 10))
    ctx.cnt('solves_in_clean_runs', K)
    singles, pairs = schedules_for(K, ctx.tier, rng)
    # the documented write=True argument of solve(): once in a directory where model.lp can be written and once
    # where it cannot (a directory of that name is in the way)
    okdir = os.path.join(ctx.workdir, 'cwd_ok')
    baddir = os.path.join(ctx.workdir, 'cwd_blocked')
    os.makedirs(okdir, exist_ok=True)
    os.makedirs(os.path.join(baddir, 'model.lp'), exist_ok=True)
    extra = []
    for k in range(K):
        for kind in ('Incumbent', 'Infeasible', 'Not Solved'):
            for d in (okdir, baddir):
                extra.append((LIMIT, [{'at': k, 'kind': kind, 'persistent': False, 'values': 'zeros', 'tfrac': 0.9}], d))
    for item in [(a, b, None) for a, b in singles + pairs] + extra:
        limit, faults, wdir = item
        fl = [dict(f, _rng=random.Random(cs ^ f['at'])) for f in faults]
        ex = en.run_lp(spec, opts, ctx.workdir, rng, inject=False, text=text, argv=argv, time_limit=limit, faults=fl,
                       clock=VirtualClock(), getters=('short', 'long'),
                       solve_kwargs={'write': True} if wdir else None, cwd=wdir)
        if wdir:
            ctx.cnt('schedules_with_write_true')
            if ex['exc'] is not None and ex['exc'].get('is_oserror'):
                # model.lp could not be written and solve() raised: no results exist, no property speaks about it
                ctx.cnt('unobservable_model_lp_not_writable')
                continue
        ctx.cnt('schedules_executed')
        if any(e.get('backend_fault') for e in ex['events']):
            ctx.cnt('excluded_backend_returned_infeasible_point')
            continue
        probs, info = judge(ex, limit)
        desc = {'limit': limit, 'faults': faults, 'K': K, 'write_true_in': None if not wdir else os.path.basename(wdir)}
        key = sp.shash([text, argv[2:], desc])
        if info['applied']:
            ctx.cnt('schedules_that_diverted_the_run')
            ctx.nontrivial(key)
        if len(faults) == 2:
            ctx.cnt('pair_schedules')
            if info['applied'] >= 2:
                ctx.cnt('pair_schedules_both_faults_reached')
        for f in faults:
            ctx.cov('%s_%s_%s' % (f['kind'].replace(' ', ''), 'persistent' if f['persistent'] else 'transient',
                                  'nolimit' if limit is None else 'limit' if limit else 'limit0'))
            ctx.cov('ordinal_%d' % min(f['at'], 10))
        for mon, msg in probs:
            ctx.finding(en.F('C14', mon, '%s | schedule %s on %s' % (msg, desc, argv[2:]), schedule=desc,
                             kinds=[f['kind'] for f in faults]),
                        dict(base, schedule=desc, argv=argv[2:], short=ex['short'], trace=[(e['status'], e['sol_status'], bool(e['fault'])) for e in ex['events']]))
    resolve_schedules(spec, opts, text, argv, K, ctx, rng, base)
    ctx.sample({'argv': argv[2:], 'file': text, 'K': K, 'singles': len(singles), 'pairs': len(pairs),
                'example_schedule': {'limit': singles[-1][0], 'faults': singles[-1][1]}}, cap=2)


def resolve_schedules(spec, opts, text, argv, K, ctx, rng, base):
    """A sequence on ONE object: a clean solve, then a long idle period (virtual clock), then a second solve
    under a time limit in which a fault is injected.  The second run is judged exactly like a first one; its
    elapsed time is measured by the harness from the start of that second solve()."""
    import sys as _sys
    from matchingproblems.solver import Solver
    solver_mod = _sys.modules[Solver.__module__]
    path = en.write_file(ctx.workdir, text)
    for kind in KINDS + ['Incumbent']:
        k = rng.randrange(K)
        for tf in (0.9,):
            clock = VirtualClock()
            from ..taps import install_clock
            TAP.reset()
            TAP.install()
            TAP.clock = clock
            undo_clock = install_clock(clock)
            ex = {'events': [], 'exc': None, 'short': None, 'long': None, 'solver': None}
            try:
                try:
                    s = Solver(list(argv))
                    ex['solver'] = s
                    s.solve()
                    if any(e['status'] != 1 or e.get('backend_fault') for e in TAP.events):
                        continue
                    clock.advance(1000.0)              # the object sits idle far longer than the limit
                    TAP.events = []
                    TAP.faults = [{'at': k, 'kind': kind, 'persistent': False, 'values': 'zeros', 'tfrac': tf,
                                   '_rng': random.Random(k)}]
                    TAP.time_limit = LIMIT
                    t0 = clock.t
                    s.solve(timeLimit=LIMIT)
                    ex['events'] = list(TAP.events)
                    ex['virtual_total_s'] = clock.t - t0
                    TAP.enabled = False
                    ex['short'] = s.get_results()
                    ex['long'] = s.get_results_long()
                except Exception as e:
                    ex['exc'] = dict(en.exc_info(e), phase='resolve')
                    ex['events'] = list(TAP.events)
            finally:
                TAP.enabled = False
                undo_clock()
            ctx.cnt('schedules_executed')
            ctx.cnt('resolve_after_idle_schedules')
            probs, info = judge(ex, LIMIT)
            desc = {'limit': LIMIT, 'faults': [{'at': k, 'kind': kind}], 'K': K, 'sequence': 'clean solve, 1000 s idle, faulted re-solve'}
            if info['applied']:
                ctx.cnt('schedules_that_diverted_the_run')
                ctx.nontrivial(sp.shash([text, argv[2:], desc]))
            for mon, msg in probs:
                ctx.finding(en.F('C14', mon, '%s | %s on %s' % (msg, desc, argv[2:]), schedule=desc, kinds=[kind]),
                            dict(base, schedule=desc, argv=argv[2:], short=ex['short']))


def real_infeasible(cs, ctx):
    """No injection: really infeasible instances must show Infeasible and no matching."""
    rng = random.Random(cs)
    for i in range(24):
        spec = sp.make_spec(rng, shape='lowerq')
        # with closures the relaxation is often feasible while no integer point is ("integer infeasible")
        opts = sp.make_opts(rng, spec, pc=True if i % 2 else None)
        ref = en.reference(spec, opts)
        if not ref['enumerable'] or ref['feasible']:
            continue
        if opts['pc']:
            ctx.cnt('real_infeasible_runs_with_closures')
        lim = rng.choice([None, 5.0])
        ex = en.run_lp(spec, opts, ctx.workdir, rng, inject=False, time_limit=lim, getters=('short', 'long'))
        ctx.cnt('schedules_executed')
        ctx.cnt('real_infeasible_runs')
        probs, info = judge(ex, lim)
        if info['unproven']:
            ctx.nontrivial(sp.shash([ex['text'], ex['argv'][2:], 'real_infeasible']))
        for mon, msg in probs:
            ctx.finding(en.F('C14', mon, msg + ' | really infeasible instance, no injection', kinds=['real']),
                        {'cs': cs, 'real': 'infeasible', 'i': i, 'file': ex['text'], 'argv': ex['argv'][2:], 'short': ex['short']})


def real_timelimit(ctx):
    """Real CBC, real clock: the large generated SPA instance under time limits."""
    from matchingproblems.solver import Solver
    outdir = ge.fresh_outdir(ctx.workdir, 'c14real')
    v = {'mp': 'spa', 'numinst': 1, 'n1': 120, 'n2': 50, 'n3': 25, 'pmin': 3, 'pmax': 6, 't1': 0.2, 't2': 0.2, 'skew': 5.0,
         'lq': 0, 'uq': 130, 'llq': 0, 'lt': 120, 'luq': 130, 'twopl': True}
    res = ge.run_generator(ge.to_argv(v, outdir), 12345)
    path = os.path.join(outdir, '0.txt')
    if not os.path.exists(path):
        ctx.cnt('real_timelimit_unobservable_generator_failed')
        return
    limits = [1.5, 0.6] if ctx.tier == 'quick' else [3.0, 2.5, 2.0, 1.5, 1.2, 0.8, 0.4, 0.1, 0.01]
    for lim in limits:
        for crit in ([['-maxsize', '1']] if ctx.tier == 'quick' else [['-maxsize', '1'], ['-maxsize', '1', '-mincost', '2', '1', '1', '-lsb', '3']]):
            argv = ['-f', path, '-na', '3', '-twopl', '-stab'] + crit
            TAP.reset()
            TAP.install()
            ex = {'events': [], 'exc': None, 'short': None, 'long': None, 'solver': None}
            try:
                t_wall = time.monotonic()
                s = Solver(argv)
                ex['solver'] = s
                s.solve(timeLimit=lim)
                ex['wall_total_s'] = time.monotonic() - t_wall
                ex['events'] = list(TAP.events)
                TAP.enabled = False
                ex['short'] = s.get_results()
                ex['long'] = s.get_results_long()
            except Exception as e:
                ex['exc'] = dict(en.exc_info(e), phase='real')
                ex['events'] = list(TAP.events)
            finally:
                TAP.enabled = False
            ctx.cnt('schedules_executed')
            ctx.cnt('real_timelimit_runs')
            cls = sorted({'%s/%s' % (NAME[e['status']], e['sol_status']) for e in ex['events']})
            for c in cls:
                ctx.cov('real_solve_class_' + c.replace(' ', ''))
            probs, info = judge(ex, lim)
            if info['unproven']:
                ctx.cnt('real_timelimit_runs_with_unproven_solve')
                ctx.nontrivial('real/%s/%s' % (lim, ' '.join(crit)))
            else:
                ctx.cnt('real_timelimit_runs_uninformative')
            for mon, msg in probs:
                ctx.finding(en.F('C14', mon, msg + ' | real CBC, timeLimit=%s, %s' % (lim, crit), kinds=['real_timelimit']),
                            {'real': 'timelimit', 'limit': lim, 'argv': argv[2:], 'short': ex['short'],
                             'trace': [(e['status'], e['sol_status']) for e in ex['events']]})


def run_shard(ctx):
    from ..worker import case_seed
    pl = plan(ctx.tier)
    if ctx.shard == 0:
        real_timelimit(ctx)
    real_infeasible(case_seed(ctx.seed, ctx.shard, 10 ** 6), ctx)
    for i in range(pl['cases_per_shard']):
        if ctx.elapsed() > pl['time_cap_s']:
            ctx.cnt('stopped_by_time_cap')
            break
        run_sequence(case_seed(ctx.seed, ctx.shard, i), ctx)
        ctx.cnt('cases')


def replay(w, ctx):
    c = w['case']
    if c.get('real') == 'timelimit':
        real_timelimit(ctx)
    elif c.get('real') == 'infeasible':
        real_infeasible(c['cs'], ctx)
    else:
        run_sequence(c['cs'], ctx)


def floors(m, tier):
    out = []
    c, cov = m['counters'], m['cover']
    need = 5000 if tier == 'quick' else 120000
    if c.get('schedules_that_diverted_the_run', 0) < need:
        out.append('only %d schedules diverted a run (< %d)' % (c.get('schedules_that_diverted_the_run', 0), need))
    if c.get('sequences', 0) < (20 if tier == 'quick' else 300):
        out.append('only %d criteria sequences' % c.get('sequences', 0))
    for kind in ('Infeasible', 'Unbounded', 'Undefined', 'NotSolved'):
        for mode in ('transient', 'persistent'):
            for lim in ('limit', 'nolimit'):
                k = '%s_%s_%s' % (kind, mode, lim)
                if cov.get(k, 0) < 50:
                    out.append('fault class %s applied %d times' % (k, cov.get(k, 0)))
    for mode in ('transient', 'persistent'):
        if cov.get('Incumbent_%s_limit' % mode, 0) < 50:
            out.append('fault class Incumbent_%s_limit applied %d times' % (mode, cov.get('Incumbent_%s_limit' % mode, 0)))
    if c.get('pair_schedules_both_faults_reached', 0) + c.get('pair_schedules', 0) < 200:
        out.append('only %d pair schedules' % c.get('pair_schedules', 0))
    if not any(k.startswith('ordinal_') and k != 'ordinal_0' for k in cov):
        out.append('no fault at a solve other than the first')
    if c.get('real_infeasible_runs', 0) < 10:
        out.append('only %d really infeasible runs' % c.get('real_infeasible_runs', 0))
    return out
