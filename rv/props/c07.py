"""C07 - brute-force mode prints the exact optimum of every statistic."""
import random

from . import lpcommon as lc
from .. import engine as en
from .. import outparse as op
from .. import refmodel as rm
from .. import spec as sp

ID = 'C07'
ANCHOR_FILES = ['solver/brute_force_solver.py', 'solver/model.py']
LEVEL = 'exploration'
NEEDS_DEPS = True
RULE = ('random specs with <=5 students x <=5 projects (every relation between #students and max rank, lower quotas, zero '
        'capacities, one-/two-sided, 2- and 3-agent files), run with -bf with and without -pc; every optimal_* line and the '
        'Infeasible verdict are compared with the reference summary computed by exhaustive enumeration; profiles must have '
        'max-rank entries; icontract postconditions watch is_valid, moregen and moregre on every call; one case in four also '
        'runs the LP path with the corresponding criteria sequence and the two figures must agree; non-trivial = >=2 valid '
        'matchings of maximum size with different cost; distinct = distinct (instance, option set)')
ASSUMPTIONS = ['reference summary in rv/refmodel.py follows the wording of C07 (pairs compared lexicographically)']
DIFF = [('size', [['maxsize', 1, []]]), ('cost', [['maxsize', 1, []], ['mincost', 2, []]]),
        ('gen', [['maxsize', 1, []], ['gen', 2, []]]), ('gre', [['maxsize', 1, []], ['gre', 2, []]]),
        ('gre_all', [['gre', 1, []]]), ('lmb', [['lmb', 1, []]]), ('lsb', [['lsb', 1, []]])]


def plan(tier):
    return {'cases_per_shard': 500 if tier == 'quick' else 10000,
            'time_cap_s': 90 if tier == 'quick' else 560}


def run_case(cs, ctx):
    lc.contracts_on(ctx)
    from matchingproblems.solver import Solver
    rng = random.Random(cs)
    big = rng.random() < 0.2
    spec = sp.make_spec_bf(rng, max_s=5 if big else 4, max_p=5 if big else 4, max_l=4)
    twopl = rng.random() < 0.5
    pc = rng.random() < 0.4
    opts = {'twopl': twopl, 'pc': pc, 'stab': False, 'crits': [], 'bf': True}
    text = sp.render(spec, rng=rng, second_side=True if twopl else rng.random() < 0.5, noise=True)
    path = en.write_file(ctx.workdir, text)
    argv = ['-f', path, '-na', str(spec['na'])] + sp.opts_to_argv(opts, rng)
    case = {'cs': cs, 'spec': spec, 'file': text, 'argv': argv[2:]}
    inst = rm.Inst(spec, twopl)
    exp = rm.bf_summary(inst, pc)
    ctx.cnt('bf_runs')
    R, ns = inst.R, inst.ns
    ctx.cov('maxrank_%s_students' % ('lt' if R < ns else 'eq' if R == ns else 'gt'))
    try:
        s = Solver(argv)
        if cs % 20 == 7:
            # failure at a particular point: the first solve dies in the middle of the enumeration
            # (a failpoint on is_valid raises at its k-th call); the object is then solved again
            import matchingproblems.solver.brute_force_solver as bfm
            cls = getattr(bfm, 'Brute_force_solver', None)
            if cls is not None and hasattr(cls, 'is_valid'):
                orig_iv = cls.is_valid
                state = {'n': 0, 'k': rng.randint(1, max(1, min(60, (spec['np'] + 1) ** spec['ns'] - 1)))}

                def failing(self_, pairs_):
                    state['n'] += 1
                    if state['n'] == state['k']:
                        raise RuntimeError('injected failure inside the enumeration')
                    return orig_iv(self_, pairs_)
                cls.is_valid = failing
                try:
                    s.solve()
                except RuntimeError:
                    ctx.cnt('first_solve_interrupted_by_failpoint')
                finally:
                    cls.is_valid = orig_iv
        if cs % 10 == 3:
            s.solve(timeLimit=1e-06)      # brute force enumerates everything whatever the limit says
            ctx.cov('solve_called_with_tiny_time_limit')
        elif cs % 6 == 1:
            s.solve(msg=True, threads=1)      # documented arguments of solve(); brute force takes no notice of them
            ctx.cov('solve_called_with_msg_true')
        else:
            s.solve()
        out = s.get_results()
    except BaseException as e:
        ctx.finding(en.F('C07', 'never_fails', '-bf run raised %s: %s [%s]' % (type(e).__name__, e, en.exc_info(e)['where']),
                         exc=en.exc_info(e), R=R, ns=ns), case)
        lc.harvest_contracts(ctx, case)
        return
    case['output'] = out
    try:
        got = op.parse_bf(out)
    except op.ParseError as e:
        ctx.finding(en.F('C07', 'parse', 'brute-force results do not parse: %s' % e), case)
        return
    if got['infeasible'] != (exp is None):
        ctx.finding(en.F('C07', 'infeasible_iff_no_valid', 'printed %s, reference has %s valid matchings (pc=%s)' % (
            'Infeasible' if got['infeasible'] else 'a summary', 0 if exp is None else exp['n_valid'], pc)), case)
    elif exp is None:
        ctx.cov('infeasible')
    else:
        ctx.cov('feasible')
        for k in op.BF_KEYS:
            g, e = got['vals'][k], exp[k]
            if k.endswith('profile') and len(g) != R:
                ctx.finding(en.F('C07', 'profile_length', '%s has %d entries, maximum rank is %d' % (k, len(g), R), key=k), case)
            elif (list(g) if isinstance(g, (list, tuple)) else g) != (list(e) if isinstance(e, (list, tuple)) else e):
                ctx.finding(en.F('C07', 'optimum', '%s printed %s, reference optimum %s' % (k, g, e), key=k), case)
        if exp['n_top_costs'] >= 2:
            ctx.nontrivial(lc.case_key(spec, [twopl, pc]))
        if exp['optimal_size'] == 0:
            ctx.cov('only_empty_matching_or_size0')
        # differential monitor against the LP path
        if cs % 4 == 0:
            name, crits = DIFF[(cs // 4) % len(DIFF)]
            o2 = {'twopl': twopl, 'pc': pc, 'stab': False, 'crits': crits}
            ex = en.run_lp(spec, o2, ctx.workdir, rng, inject=True, getters=('short',), text=text)
            ctx.cnt('lp_differential_runs')
            try:
                st = op.parse_results(ex['short'])['stats'] if ex['short'] else None
            except op.ParseError:
                st = None
            if any(e.get('backend_fault') for e in ex['events']):
                ctx.cnt('lp_differential_excluded_backend_fault')
                st = None
            if st and 'matching' in st:
                pairs = {'size': (st['size'], got['vals']['optimal_size']),
                         'cost': (st['cost'][0], got['vals']['optimal_maxsizemincost'][0]),
                         'gen': (st['profile'], got['vals']['optimal_generousmaxprofile']),
                         'gre': (st['profile'], got['vals']['optimal_greedymaxprofile']),
                         'gre_all': (st['profile'], got['vals']['optimal_greedyprofile']),
                         'lmb': (st['max_lec_abs_diff'], got['vals']['optimal_max_lec_abs_diff']),
                         'lsb': (st['sum_lec_abs_diff'], got['vals']['optimal_sum_lec_abs_diff'])}[name]
                ctx.cov('lp_diff_' + name)
                if list(pairs[0]) != list(pairs[1]) if isinstance(pairs[0], list) else pairs[0] != pairs[1]:
                    ctx.finding(en.F('C07', 'lp_differential', 'LP with %s reports %s, brute force prints %s' % (
                        crits, pairs[0], pairs[1]), key=name), case)
            else:
                ctx.cnt('lp_differential_unobservable')
    lc.harvest_contracts(ctx, case)
    ctx.sample({'argv': case['argv'], 'file': text, 'output_tail': out[-420:]}, cap=2)


def replay(w, ctx):
    run_case(w['case']['cs'], ctx)


def floors(m, tier):
    out = []
    c, cov = m['counters'], m['cover']
    need = 2500 if tier == 'quick' else 50000
    if c.get('bf_runs', 0) < need:
        out.append('only %d brute-force runs' % c.get('bf_runs', 0))
    if len(m['distinct']) < need // 8:
        out.append('only %d non-trivial instances' % len(m['distinct']))
    for k in ('maxrank_lt_students', 'maxrank_eq_students', 'maxrank_gt_students', 'infeasible', 'feasible', 'only_empty_matching_or_size0'):
        if cov.get(k, 0) < 20:
            out.append('class %s seen %d times' % (k, cov.get(k, 0)))
    for k in ('is_valid', 'moregen', 'moregre'):
        if c.get('contract_evals_' + k, 0) == 0:
            out.append('contract on %s never evaluated (auxiliary monitor absent)' % k) if False else None
    if c.get('contract_evals_contract_errors', 0):
        out.append('%d internal contract errors' % c['contract_evals_contract_errors'])
    return [x for x in out if x]
