"""C18 - result getters are read-only and re-solving is reproducible."""
import random

from . import lpcommon as lc
from .. import engine as en
from .. import outparse as op
from .. import refmodel as rm
from .. import spec as sp
from ..taps import TAP

ID = 'C18'
ANCHOR_FILES = ['solver/solver.py', 'solver/model.py', 'solver/lp_solver.py']
LEVEL = 'exploration'
EVAL_COUNTER = 'histories'
RULE = ('random call histories of length 3-12 over {solve, get_results, get_results_short, get_results_long, get_debug} that '
        'start with solve, on one Solver object, for random small instances x option sets (LP with/without criteria, -stab, -pc, '
        'infeasible instances, and -bf); every call and return is recorded at the client boundary; oracle over the history: '
        'within an epoch (between two solves) all returns of one getter are byte-identical and none raises; after each further '
        'solve the status is the same, the value of every requested criterion (measured by the reference from the matching line) '
        'is the same, the matching is valid, and the LP tap sees the same number of solves with the same numbers of constraints '
        'as the first time (tie-break injection makes the matching itself vary); non-trivial = history with >= 2 solves and >= 2 '
        'calls of one getter within one epoch; distinct = distinct (instance, options, history)')
ASSUMPTIONS = ['timings in the result text come from stored timestamps, so they are constant within an epoch']
GETTERS = ['get_results', 'get_results_short', 'get_results_long', 'get_debug']


def plan(tier):
    return {'cases_per_shard': 330 if tier == 'quick' else 6500,
            'time_cap_s': 90 if tier == 'quick' else 560}


def run_case(cs, ctx):
    from matchingproblems.solver import Solver
    rng = random.Random(cs)
    bf = rng.random() < 0.15
    spec = sp.make_spec_bf(rng) if bf else sp.make_spec(rng)
    if bf:
        opts = {'twopl': rng.random() < 0.5, 'pc': rng.random() < 0.3, 'stab': False, 'crits': [], 'bf': True}
    else:
        opts = sp.make_opts(rng, spec)
    text = sp.render(spec, rng=rng, second_side=True, noise=True)
    import os as _os0
    relative = rng.random() < 0.1
    path = en.write_file(ctx.workdir, text, plain=relative)
    argv = ['-f', path, '-na', str(spec['na'])] + sp.opts_to_argv(opts, rng)
    solve_cwd = [ctx.workdir]
    if relative:
        # the file is named relative to the working directory of construction; before a later call the process
        # moves to another directory that holds a different file of the same name
        argv[1] = _os0.path.basename(path)
        elsewhere = _os0.path.join(ctx.workdir, 'elsewhere')
        _os0.makedirs(elsewhere, exist_ok=True)
        with open(_os0.path.join(elsewhere, _os0.path.basename(path)), 'w') as fh:
            fh.write(sp.render(sp.make_spec(random.Random(cs ^ 0x5151)), second_side=True))
        ctx.cnt('histories_with_a_relative_file_name_and_chdir')
    other = None
    if rng.random() < 0.2:
        # environment action: another Solver object on the SAME unchanged file with other options
        # is constructed and solved in the middle of the history ('other')
        o2 = sp.make_opts(rng, spec, twopl=opts['twopl'])
        if opts.get('bf'):
            o2['twopl'] = opts['twopl']
        other = ['-f', path, '-na', str(spec['na'])] + sp.opts_to_argv(o2, rng)
    n = rng.randint(3, 12)
    hist = ['solve'] + [rng.choice(['solve'] + GETTERS * 2) for _ in range(n - 1)]
    if rng.random() < 0.5:
        # make sure the interesting shape occurs often: g g solve g g
        g = rng.choice(GETTERS)
        hist = ['solve', g, rng.choice(GETTERS), g, 'solve', g, rng.choice(GETTERS), g][:max(5, n)]
    if other is not None and len(hist) >= 3:
        hist.insert(rng.randint(2, len(hist) - 1), 'other_object_solves')
        ctx.cnt('histories_with_a_second_object_on_the_same_file')
    if rng.random() < 0.15 and len(hist) >= 3:
        hist.insert(rng.randint(1, len(hist) - 1), rng.choice(['file_replaced', 'file_removed']))
        ctx.cnt('histories_in_which_the_instance_file_changes')
    case = {'cs': cs, 'argv': ['-f', '<file>'] + argv[2:], 'file': text, 'history': hist,
            'other_object_argv': None if other is None else ['-f', '<file>'] + other[2:]}
    ctx.cnt('histories')
    _cwd0 = _os0.getcwd()
    try:
        _os0.chdir(ctx.workdir)
        argv_obj = list(argv)          # the caller's own list object
        s = Solver(argv_obj)
    except BaseException as e:
        ctx.cnt('unobservable_constructor_failed')
        return
    finally:
        _os0.chdir(_cwd0)
    inst = rm.Inst(spec, opts['twopl'])
    steps = rm.elementary_steps(inst, sp.ordered_crits(opts)) if not bf else []
    TAP.reset()
    TAP.install()
    TAP.inject_rng = random.Random(cs ^ 0x1234) if not bf else None
    TAP.snapshot = en.snapshot_fn(s) if not bf else None
    epoch = -1
    seen = {}          # getter -> text in this epoch
    first = None       # facts of the first solve
    log = []
    nsolve = 0
    repeated_getter = False
    pending = None     # facts of the current epoch, completed at its end
    limits_used = []
    import datetime as _dtmod
    real_dt = _dtmod.datetime
    use_limit = (not bf) and rng.random() < 0.3
    limit_mix = (not bf) and (not use_limit) and rng.random() < 0.2
    if limit_mix:
        # every solve of the history gets its own time limit: none, generous, or far too small for CBC
        ctx.cnt('histories_with_a_different_time_limit_per_solve')
        ref_feasible = None
        try:
            rf = en.reference(spec, opts)
            if rf['enumerable']:
                ref_feasible = bool(rf['feasible'])
        except Exception:
            pass
    fault_first = (not bf) and (not use_limit) and (not limit_mix) and rng.random() < 0.12
    if fault_first:
        # the first solve of the object fails (injected at the LP tap); every later solve is clean and must
        # show what the reference expects
        limit_mix = True
        ctx.cnt('histories_whose_first_solve_fails')
        ref_feasible = None
        try:
            rf = en.reference(spec, opts)
            if rf['enumerable']:
                ref_feasible = bool(rf['feasible'])
        except Exception:
            pass
    solve_kw_mode = rng.choice([0, 0, 0, 0, 1, 2, 3])
    if solve_kw_mode:
        ctx.cnt('histories_with_solve_keyword_arguments')
    limit = 50.0 if use_limit else None

    class JumpDT(real_dt):
        """Virtual time that jumps forward between getter calls (injected delay)."""
        offset = 0.0

        @classmethod
        def now(cls, tz=None):
            return real_dt.now(tz) + _dtmod.timedelta(seconds=cls.offset)

    def close_epoch():
        """Read the facts of the epoch that ends now and compare with the first epoch."""
        nonlocal first
        if pending is None:
            return True
        facts, k = pending['facts'], pending['nsolve']
        tiny = pending.get('tiny')
        try:
            txt = s.get_results()
        except Exception as e:
            ctx.finding(en.F('C18', 'getter_raises', 'get_results() after solve #%d raised %s: %s' % (k, type(e).__name__, e),
                             getter='get_results', exc=en.exc_info(e), bf=bf), case)
            return False
        if 'get_results' in seen and seen['get_results'] != txt:
            ctx.finding(en.F('C18', 'getter_idempotent', 'get_results() returned different text within one epoch (history %s + final read)' % hist,
                             getter='get_results', bf=bf), case)
            return False
        if bf:
            try:
                pb = op.parse_bf(txt)
                facts['text_wo_time'] = repr((pb['infeasible'], sorted(pb['vals'].items())))
            except op.ParseError:
                ctx.cnt('unobservable_results_do_not_parse')
                return False
        else:
            try:
                pr = op.parse_results(txt)
            except op.ParseError:
                ctx.cnt('unobservable_results_do_not_parse')
                return False
            facts['status'] = 'Timeout' if pr['timeout'] is not None else pr['status']
            m = pr['stats'].get('matching')
            facts['vec'] = None
            if m is not None:
                why = rm.validity(inst, m, opts['pc'])
                if why is not None:
                    if k > 1:
                        ctx.finding(en.F('C18', 'resolve_valid', 'after solve #%d the matching %s is not valid: %s' % (k, list(m), why)), case)
                    return False
                facts['vec'] = rm.value_vector(m, steps)
        log.append(('epoch_end', facts.get('status', 'bf')))
        if tiny:
            # a solve under a limit far too small may end either way; only the getter idempotence was judged
            ctx.cnt('epochs_with_tiny_time_limit')
            return True
        if limit_mix and ref_feasible is not None:
            want = 'Optimal' if ref_feasible else 'Infeasible'
            ctx.cnt('statuses_after_mixed_limits_judged')
            if facts.get('status') != want:
                ctx.finding(en.F('C18', 'resolve_reproducible', 'solve #%d (time limit %s, earlier solves of the same object used other limits: %s) '
                                 'shows status %r; the instance is %s' % (k, pending.get('limit'), limits_used[:-1], facts.get('status'),
                                                                       'feasible' if ref_feasible else 'infeasible'), key='status'), case)
                return False
        if first is None:
            first = facts
        else:
            ctx.cnt('resolves_judged')
            for key in ('status', 'vec', 'text_wo_time'):
                if key in first and facts.get(key) != first[key]:
                    ctx.finding(en.F('C18', 'resolve_reproducible', 'solve #%d gives %s = %r, the first solve gave %r' % (
                        k, key, facts.get(key), first[key]), key=key), case)
            if not bf:
                ctx.cnt('resolve_traces_judged')
                if facts['n_solves'] != first['n_solves'] or facts['ncons'] != first['ncons']:
                    ctx.finding(en.F('C18', 'resolve_same_trace', 'solve #%d performed %d underlying solves with %s constraints; '
                                     'the first solve performed %d with %s' % (k, facts['n_solves'], facts['ncons'],
                                                                              first['n_solves'], first['ncons'])), case)
        return True

    try:
        if use_limit:
            _dtmod.datetime = JumpDT
            ctx.cnt('histories_with_time_limit_and_time_jumps')
        edit_at = rng.randrange(1, len(hist)) if (len(hist) > 1 and rng.random() < 0.15) else None
        if edit_at is not None:
            ctx.cnt('histories_in_which_the_caller_edits_its_argument_list')
        for pos_, call in enumerate(hist):
            ctx.cnt('calls')
            if pos_ == edit_at:
                # the caller re-uses the list it passed to the constructor (a template for the next Solver)
                argv_obj.append('-maxsize')
                argv_obj[1:3] = ['/nonexistent/other.txt']
            if call in ('file_replaced', 'file_removed'):
                # the Solver object holds the instance it read when it was constructed
                import os as _os
                try:
                    if call == 'file_removed':
                        _os.remove(path)
                    else:
                        with open(path, 'w') as fh:
                            fh.write(sp.render(sp.make_spec(random.Random(cs ^ 0x3131)), second_side=True))
                except OSError:
                    pass
                continue
            if call == 'other_object_solves':
                try:
                    TAP.enabled = False
                    import os as _os
                    if not _os.path.exists(path):
                        continue
                    b = Solver(list(other))
                    b.solve()
                    b.get_results()
                    b.get_debug()
                except BaseException:
                    ctx.cnt('other_object_failed')
                continue
            if call == 'solve':
                if not close_epoch():
                    return
                epoch += 1
                seen = {}
                before = len(TAP.events)
                TAP.enabled = True
                try:
                    kw = {}
                    this_limit = limit
                    if fault_first:
                        this_limit = None
                        limits_used.append('injected %s' % ('fault' if nsolve == 0 else 'nothing'))
                        TAP.faults = ([{'at': rng.randrange(3), 'kind': rng.choice(['Infeasible', 'Not Solved', 'Undefined', 'Unbounded']),
                                        'persistent': True, 'values': 'zeros', '_rng': random.Random(cs)}] if nsolve == 0 else None)
                        TAP.events = [] if nsolve == 0 else TAP.events
                    elif limit_mix:
                        this_limit = rng.choice([None, 50.0, 1e-06, 1e-06])
                        limits_used.append(this_limit)
                    if this_limit is not None:
                        kw['timeLimit'] = this_limit
                    if solve_kw_mode == 1:
                        kw.update(threads=1)
                    elif solve_kw_mode == 2:
                        kw.update(write=True)          # writes model.lp into the current directory
                    elif solve_kw_mode == 3 and nsolve >= 1:
                        kw.update(threads=2, write=True)   # the keyword arguments change between the solves
                    import os as _os
                    _cwd = _os.getcwd()
                    try:
                        if relative and nsolve >= 1:
                            solve_cwd[0] = _os.path.join(ctx.workdir, 'elsewhere')
                        _os.chdir(solve_cwd[0])
                        s.solve(**kw)
                    finally:
                        _os.chdir(_cwd)
                except Exception as e:
                    log.append(('solve', 'raised ' + type(e).__name__))
                    pending = None
                    if nsolve >= 1:
                        ctx.finding(en.F('C18', 'resolve_raises', 'solve #%d on the same object raised %s: %s (the first solve returned normally)' % (
                            nsolve + 1, type(e).__name__, str(e)[:200]), exc=en.exc_info(e)), case)
                    else:
                        ctx.cnt('unobservable_solve_raised')
                    return
                finally:
                    TAP.enabled = False
                nsolve += 1
                evs = TAP.events[before:]
                unc = [e['uncertified'] for e in evs if e.get('uncertified')]
                if unc:
                    ctx.finding(en.F('C18', 'backend_certificate', 'solve #%d with keywords %s runs the back end with %s: its status Optimal '
                                     'does not certify an optimum, so the answer may change from one solve to the next' % (nsolve, sorted(kw), unc[0])), case)
                if any(e.get('backend_fault') for e in evs):
                    ctx.cnt('excluded_backend_returned_infeasible_point')
                    pending = None
                    return
                pending = {'facts': {'n_solves': len(evs), 'ncons': [e['ncons'] for e in evs]}, 'nsolve': nsolve,
                           'tiny': bool((limit_mix and this_limit is not None and this_limit < 1e-3) or (fault_first and nsolve == 1)),
                           'limit': this_limit}
                log.append(('solve', nsolve))
            else:
                try:
                    txt = getattr(s, call)()
                except Exception as e:
                    ctx.finding(en.F('C18', 'getter_raises', '%s() raised %s: %s [%s]' % (call, type(e).__name__, e, en.exc_info(e)['where']),
                                     getter=call, exc=en.exc_info(e), bf=bf), case)
                    pending = None
                    return
                if use_limit:
                    JumpDT.offset += 100.0      # the next getter call happens "100 s later"
                log.append((call, len(txt) if isinstance(txt, str) else None))
                if not isinstance(txt, str):
                    ctx.finding(en.F('C18', 'getter_text', '%s() returned %s' % (call, type(txt).__name__), getter=call), case)
                    pending = None
                    return
                ctx.cnt('getter_returns')
                if call in seen:
                    repeated_getter = True
                    ctx.cnt('repeat_comparisons')
                    if seen[call] != txt:
                        a, b = seen[call].split('\n'), txt.split('\n')
                        diff = next(((x, y) for x, y in zip(a, b) if x != y), (len(a), len(b)))
                        ctx.finding(en.F('C18', 'getter_idempotent', '%s() returned different text within one epoch (history %s%s): %r vs %r' % (
                            call, hist, ', timeLimit=%s with 100 s of virtual time between getter calls' % limit if use_limit else '',
                            diff[0], diff[1]), getter=call, bf=bf), case)
                        pending = None
                        return
                else:
                    seen[call] = txt
        close_epoch()
    finally:
        TAP.enabled = False
        _dtmod.datetime = real_dt
    if nsolve >= 2 and repeated_getter:
        ctx.nontrivial(sp.shash([text, argv[2:], hist]))
    ctx.cov('bf_histories' if bf else 'lp_histories')
    if first and first.get('status') == 'Infeasible':
        ctx.cov('infeasible_histories')
    if not bf and opts['stab']:
        ctx.cov('stab_histories')
    if not bf and opts['pc']:
        ctx.cov('pc_histories')
    ctx.sample({'argv': case['argv'], 'history': hist, 'log': log}, cap=3)


def replay(w, ctx):
    run_case(w['case']['cs'], ctx)


def floors(m, tier):
    out = []
    c, cov = m['counters'], m['cover']
    need = 1000 if tier == 'quick' else 10000
    if len(m['distinct']) < need:
        out.append('only %d non-trivial histories' % len(m['distinct']))
    if c.get('repeat_comparisons', 0) < need:
        out.append('only %d repeated-getter comparisons' % c.get('repeat_comparisons', 0))
    if c.get('resolves_judged', 0) < need:
        out.append('only %d re-solves judged' % c.get('resolves_judged', 0))
    for k in ('bf_histories', 'lp_histories', 'infeasible_histories', 'stab_histories', 'pc_histories'):
        if cov.get(k, 0) < 30:
            out.append('class %s seen %d times' % (k, cov.get(k, 0)))
    return out
