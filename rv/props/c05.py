"""C05 - with -stab the solver searches exactly the stable matchings."""
from . import lpcommon as lc
from .. import refmodel as rm

ID = 'C05'
ANCHOR_FILES = ['solver/lp_solver.py', 'solver/model.py']
LEVEL = 'exploration'
RULE = ('two-sided HR/SM-shaped and SPA specs (ties on both sides, shared lecturers, lecturer capacity below the sum of '
        'project capacities, zero capacities, several projects of one lecturer per student) with -stab and 0-2 criteria '
        '(maxsize/minsize emphasised); soundness: the printed matching has no blocking pair by the reference definition; '
        'completeness: status and optimum equal those over the reference stable set; pin probe: the final integer program '
        'accepts exactly the reference stable (optimal) matchings, point by point; non-trivial = instance with >=1 stable '
        'and >=1 unstable valid matching; predicate coverage counts which blocking clause decided over all (valid matching, '
        'pair) evaluations of the reference; distinct = distinct (instance, option set)')
ASSUMPTIONS = ['SPA-STL blocking-pair definition as worded in C05 (undefined worst assignee => clause false)',
               'CBC decides the pin-probe programs correctly']
PROFILE = {'name': 'c05', 'huge_ids_rate': 0.05, 'spec': {'shapes': ['dense', 'dense', 'tight_lecturer', 'tight_lecturer', 'one_lecturer',
                                              'zero_caps', 'all_tied', 'no_ties', 'long_lists', 'lowerq']},
           'opts': {'twopl': True, 'stab': True, 'ncrit_choices': [0, 1, 1, 1, 2],
                    'crit_pool': ['maxsize', 'maxsize', 'minsize', 'minsize', 'gen', 'gre', 'mincost', 'minsqcost',
                                  'lmb', 'lsb', 'mincostlsb']},
           'medium_rate': 0.12, 'shipped_rate': 0.02, 'large_rate': 0.04}
CLAUSES = ['3a', '3b_in_Ml', '3b_pref', '3c', '3b_tie_not_strict', '3c_tie_not_strict', 'student_tie_not_strict',
           '3b_no_worst', '3c_no_worst']


def plan(tier):
    return {'cases_per_shard': 340 if tier == 'quick' else 8000,
            'time_cap_s': 90 if tier == 'quick' else 560}


def run_case(cs, ctx):
    quick = ctx.tier == 'quick'
    prof = dict(PROFILE)
    prof['spec'] = dict(PROFILE['spec'], na=3 if cs % 5 < 3 else 2)
    r = lc.lp_case(cs, ctx, prof, probe_rate=0.2 if quick else 0.5, probe_cap=64 if quick else 200)
    ref, f = r['ref'], r['facts']
    if ref['enumerable']:
        inst = ref['inst']
        valid = ref['valid']
        nst = len(ref['feasible'])
        cover = {}
        for m in valid[:400]:
            rm.blocking_pairs(inst, m, cover=cover)
        for k, v in cover.items():
            ctx.cov(k, v)
        if f.get('observable'):
            if nst >= 1 and len(valid) > nst:
                ctx.nontrivial(lc.case_key(r['spec'], r['opts']))
            if valid and nst == 0:
                ctx.cov('valid_but_no_stable_matching')
            sizes = {sum(1 for p in m if p) for m in ref['feasible']}
            if len(sizes) > 1:
                ctx.cov('stable_matchings_of_different_sizes')
    ctx.sample(lc.brief(r), cap=2)


def replay(w, ctx):
    run_case(w['case']['cs'], ctx)


def floors(m, tier):
    out = []
    c = m['counters']
    need = 1000 if tier == 'quick' else 7000
    if c.get('c05_matchings_judged', 0) < need:
        out.append('only %d matchings judged for stability' % c.get('c05_matchings_judged', 0))
    if len(m['distinct']) < need // 2:
        out.append('only %d non-trivial instances' % len(m['distinct']))
    for cl in CLAUSES:
        if m['cover'].get(cl, 0) == 0:
            out.append('blocking-pair clause %s never decided' % cl)
    if c.get('probe_points', 0) < (1000 if tier == 'quick' else 10000):
        out.append('pin probe saw only %d points' % c.get('probe_points', 0))
    return out
