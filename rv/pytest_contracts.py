"""pytest plugin: run the repository's own 35 tests with the runtime contracts on
(`./vcheck contracts-on-tests`).  A contract that fires there is either too strict
or a defect the tests do not assert; the witness is printed, never silently relaxed."""
import os
import sys


def pytest_configure(config):
    os.environ['MATCHINGPROBLEMS_VERIF'] = '1'
    from rv import loader
    loader.load()
    from rv import contracts
    config._rv_contracts = contracts.install_all()


def pytest_sessionfinish(session, exitstatus):
    from rv import contracts
    log = contracts.drain()
    sys.stdout.write('\nrv contracts during the repository tests: installed=%s\n  evaluations=%s\n  violations=%d\n' % (
        {k: v.split(' ')[0] for k, v in session.config._rv_contracts.items()}, dict(contracts.EVALS), len(log)))
    for v in log[:10]:
        sys.stdout.write('  CONTRACT VIOLATION %s %s: %s\n' % (v['prop'], v['monitor'], v['msg'][:300]))
    if log:
        session.exitstatus = 1
