"""LP execution engine shared by C01-C05, C11, C14, C16, C18: render spec ->
Solver(args) -> solve() under the tap -> getters -> oracles -> optional probe.
Every finding is tagged with the property that owns the monitor."""
import os
import random
import traceback

from . import refmodel as rm
from . import outparse as op
from . import spec as sp
from .taps import TAP, pin_probe

ENUM_CAP = 6000      # acceptable assignments above which the reference is not enumerated


def exc_info(e):
    tb = traceback.extract_tb(e.__traceback__)
    where = ''
    for fr in reversed(tb):
        if 'matchingproblems' in fr.filename:
            where = '%s:%d %s' % (os.path.basename(fr.filename), fr.lineno, fr.name)
            break
    return {'type': type(e).__name__, 'msg': str(e)[:300], 'where': where}


HOSTILE_NAMES = ['Upper Case', '100%', 'x-pl2', 'a=b', "it's", '%d_%s', '{0}', '#1', '\u00fcn\u00ef', 'CAPS', 'semi;colon',
                 '-twopl', '~user', '$HOME', 'dot.dir.txt']
PATH_SPELLINGS = {}


def write_file(workdir, text, name='inst.txt', plain=False):
    """Writes an instance file and returns the path to pass to -f.  One file in five gets a path a temp-dir
    campaign never produces: directory or file names with capitals, blanks, '%', '=', option look-alikes,
    non-ASCII letters; redundant components ('./', '//', 'sub/..'); a symbolic link followed by '..' (the
    textually collapsed path names ANOTHER file).  The choice is a function of the text, so replays agree."""
    import zlib
    h = zlib.crc32((name + text).encode('utf-8', 'replace'))
    kind = 'plain'
    path = os.path.join(workdir, name)
    if not plain:
        frag = HOSTILE_NAMES[(h >> 8) % len(HOSTILE_NAMES)]
        m = h % 20
        if m == 0 or m == 1:
            kind = 'hostile_directory_name'
            os.makedirs(os.path.join(workdir, frag), exist_ok=True)
            path = os.path.join(workdir, frag, name)
        elif m == 2:
            kind = 'hostile_file_name'
            path = os.path.join(workdir, frag + ' ' + name.replace('.txt', '.TXT'))
        elif m == 3:
            kind = 'redundant_components'
            os.makedirs(os.path.join(workdir, 'sub'), exist_ok=True)
            path = workdir + '//./sub/../' + name
        elif m == 4 and os.path.exists(os.path.join(workdir, name)):
            # workdir/lnk -> workdir/real/deep ; the file is workdir/real/<name>, reached as workdir/lnk/../<name>;
            # workdir/<name> (an earlier case's file) is what a textual normalisation of that path would name
            kind = 'symlink_then_dotdot'
            os.makedirs(os.path.join(workdir, 'real', 'deep'), exist_ok=True)
            if not os.path.islink(os.path.join(workdir, 'lnk')):
                os.symlink(os.path.join(workdir, 'real', 'deep'), os.path.join(workdir, 'lnk'))
            with open(os.path.join(workdir, 'real', name), 'w') as f:
                f.write(text)
            PATH_SPELLINGS[kind] = PATH_SPELLINGS.get(kind, 0) + 1
            return os.path.join(workdir, 'lnk', '..', name)
    PATH_SPELLINGS[kind] = PATH_SPELLINGS.get(kind, 0) + 1
    with open(path, 'w') as f:
        f.write(text)
    return path


def model_pairs(solver_obj):
    return [(p.studentID, p.projectID, p.lp_var)
            for row in solver_obj.model.pairs for p in row]


def snapshot_fn(solver_obj):
    def snap():
        m = [0] * solver_obj.model.num_students
        for row in solver_obj.model.pairs:
            for p in row:
                v = p.lp_var.varValue
                if v is not None and v > 0.5:
                    m[p.studentID - 1] = p.projectID
        return tuple(m)
    return snap


def run_lp(spec, opts, workdir, rng, inject=True, noise=True, second_side=None,
           time_limit=None, faults=None, clock=None, getters=('short', 'long', 'debug'),
           text=None, argv=None, decoy_argv=None, cbc_options=None, solve_kwargs=None, cwd=None, stale_text=None,
           decoy_text=None):
    """One monitored execution of the real Solver.  Never raises."""
    import sys as _sys
    from matchingproblems.solver import Solver
    solver_mod = _sys.modules[Solver.__module__]      # the module whose `datetime` the controller uses
    if second_side is None:
        second_side = True if opts['twopl'] else (rng.random() < 0.5)
    if text is None:
        text = sp.render(spec, rng=rng, second_side=second_side, noise=noise)
    if stale_text is not None:
        # another instance of exactly the same byte length is read from this very path first, then the path is
        # rewritten within the same second (same size, same whole-second mtime): the file on disk is what counts
        n = max(len(stale_text), len(text))
        stale_text = stale_text + ' ' * (n - len(stale_text)) if not stale_text.endswith('\n') else stale_text[:-1] + ' ' * (n - len(stale_text)) + '\n'
        text = text[:-1] + ' ' * (n - len(text)) + '\n' if text.endswith('\n') else text + ' ' * (n - len(text))
        p0 = write_file(workdir, stale_text, plain=True)
        st0 = os.stat(p0)
        try:
            pre = Solver(['-f', p0, '-na', str(spec['na'])] + (['-twopl'] if opts['twopl'] else []))
            pre.solve()
            pre.get_results()
        except BaseException:
            pass
    path = write_file(workdir, text, plain=stale_text is not None)
    if stale_text is not None:
        os.utime(path, ns=(st0.st_atime_ns, st0.st_mtime_ns))     # exactly the old time stamps (as cp -p would leave)
    if argv is None:
        argv = ['-f', path, '-na', str(spec['na'])] + sp.opts_to_argv(opts, rng)
    ex = {'spec': spec, 'opts': opts, 'argv': argv, 'text': text, 'exc': None, 'solve_kwargs': dict(solve_kwargs or {}),
          'sysexit': None, 'short': None, 'long': None, 'debug': None,
          'events': [], 'prob': None, 'solver': None, 'second_side': second_side}
    TAP.reset()
    TAP.install()
    TAP.inject_rng = random.Random(rng.random()) if inject else None
    TAP.faults = faults
    TAP.time_limit = time_limit
    TAP.force_options = cbc_options
    undo_clock = None
    if clock is not None:
        from .taps import install_clock
        TAP.clock = clock
        undo_clock = install_clock(clock)
        ex['_t0'] = clock.t
    try:
        try:
            make = Solver
            if rng.random() < 0.2:
                make = getattr(solver_mod, 'create', Solver)     # the module's documented creation function
            s = make(list(argv))
        except SystemExit as e:
            ex['sysexit'] = e.code
            return ex
        except Exception as e:
            ex['exc'] = dict(exc_info(e), phase='init')
            return ex
        ex['solver'] = s
        TAP.snapshot = snapshot_fn(s)
        decoy = None
        if decoy_argv is not None:
            # another live Solver object on the same file with other options, constructed
            # between this object's construction and its solve (and solved before its getters)
            try:
                dpath = path if decoy_text is None else write_file(workdir, decoy_text, 'decoy.txt', plain=True)
                decoy = Solver(['-f', dpath] + list(decoy_argv))
            except BaseException:
                decoy = None
        old_cwd = os.getcwd()
        try:
            if cwd is not None:
                os.chdir(cwd)          # solve(write=True) writes model.lp into the current directory
            kw = dict(solve_kwargs or {})
            if time_limit is not None:
                kw['timeLimit'] = time_limit
            s.solve(**kw)
        except Exception as e:
            ex['exc'] = dict(exc_info(e), phase='solve', is_oserror=isinstance(e, OSError))
        finally:
            os.chdir(old_cwd)
        if decoy is not None:
            TAP.enabled = False
            try:
                decoy.solve()
                decoy.get_results()
            except BaseException:
                pass
        ex['events'] = list(TAP.events)
        if clock is not None:
            # elapsed time of construction + solve by the harness's own clock (not the repository's bookkeeping)
            ex['virtual_total_s'] = clock.t - ex['_t0']
        ex['inj'] = dict(TAP.inj)
        ex['prob'] = TAP.probs[-1] if TAP.probs else None
        TAP.enabled = False
        if ex['exc'] is None:
            for g in getters:
                try:
                    if g == 'short':
                        ex['short'] = s.get_results()
                    elif g == 'long':
                        ex['long'] = s.get_results_long()
                    elif g == 'debug':
                        ex['debug'] = s.get_debug()
                except Exception as e:
                    ex['exc'] = dict(exc_info(e), phase=g)
                    break
    finally:
        TAP.enabled = False
        if undo_clock is not None:
            undo_clock()
    return ex


def light(ex):
    """JSON-able part of an execution for witnesses/samples."""
    return {'argv': [a if not a.endswith('inst.txt') else '<file>' for a in ex['argv']],
            'file': ex['text'], 'exc': ex['exc'], 'sysexit': ex['sysexit'],
            'short': ex['short'], 'n_solves': len(ex['events']),
            'solve_status': [(e['status'], e['sol_status']) for e in ex['events']]}


# --------------------------------------------------------------------- reference

def reference(spec, opts, cap=None):
    inst = rm.Inst(spec, opts['twopl'])
    if cap is None:
        cap = 60000 if spec.get('shape') == 'shipped' else ENUM_CAP
    ref = {'inst': inst, 'enumerable': inst.n_acceptable_assignments() <= cap}
    if not ref['enumerable']:
        return ref
    valid = rm.enumerate_valid(inst, opts['pc'])
    ref['valid'] = valid
    if opts['stab']:
        ref['feasible'] = [m for m in valid if rm.is_stable(inst, m)]
    else:
        ref['feasible'] = valid
    crits = sp.ordered_crits(opts)
    ref['crits'] = crits
    ref['steps'] = rm.elementary_steps(inst, crits)
    ref['sets'], ref['vals'] = rm.lex_filter(ref['feasible'], ref['steps'])
    ref['final'] = ref['sets'][-1] if ref['steps'] else ref['feasible']
    return ref


# ----------------------------------------------------------------------- oracles

def F(prop, monitor, msg, **kw):
    d = {'prop': prop, 'monitor': monitor, 'msg': msg}
    d.update(kw)
    return d


def judge_lp(ex, ref, probe_cap=0, probe_rng=None, counters=None):
    """Apply every output oracle to one execution.  Returns (findings, facts)."""
    fs = []
    facts = {}
    C = counters if counters is not None else {}

    def cnt(k, n=1):
        C[k] = C.get(k, 0) + n

    inst = ref['inst']
    spec, opts = ex['spec'], ex['opts']
    crits = sp.ordered_crits(opts)
    enumerable = ref['enumerable']
    feasible = ref.get('feasible')
    facts['enumerable'] = enumerable
    facts['n_feasible'] = len(feasible) if enumerable else None
    facts['status'] = None
    facts['observable'] = False
    cnt('executions')
    if any(ev.get('backend_fault') for ev in ex['events']):
        # the MILP back end returned, with status Optimal, a point that violates the very
        # problem it was given: outside every property's quantifier ("solutions a MILP solver
        # is entitled to return"); the execution is excluded and counted
        cnt('excluded_backend_returned_infeasible_point')
        facts['backend_fault'] = True
        return fs, facts

    unc = [ev['uncertified'] for ev in ex['events'] if ev.get('uncertified')]
    if unc:
        # owned by C03 (each criterion reaches its optimum) and reported under the other optimisation properties too
        for pid in ('C03', 'C02', 'C04', 'C05'):
            fs.append(F(pid, 'backend_certificate', 'the back end was run with %s (solve keywords %s): its status Optimal does not '
                        'certify an optimum' % (unc[0], ex.get('solve_kwargs')), kwargs=ex.get('solve_kwargs')))
    # ---- client boundary: exceptions (C02 owns "never errors")
    if ex['sysexit'] is not None:
        fs.append(F('C02', 'no_exception', 'admissible option set refused with SystemExit(%r)' % (ex['sysexit'],)))
        return fs, facts
    if ex['exc'] is not None:
        e = ex['exc']
        prop = 'C18' if e['phase'] == 'debug' else 'C02'
        fs.append(F(prop, 'no_exception', '%s in %s: %s [%s]' % (e['type'], e['phase'], e['msg'], e['where']),
                    exc=e))
        facts['exception'] = e
        if e['phase'] in ('init', 'solve', 'short'):
            return fs, facts
    # ---- parse (C11 owns the text)
    try:
        sh = op.parse_results(ex['short'])
    except op.ParseError as e:
        fs.append(F('C11', 'parse_short', 'short results do not parse: %s' % e))
        return fs, facts
    lg = None
    if ex['long'] is not None:
        try:
            lg = op.parse_results(ex['long'])
        except op.ParseError as e:
            fs.append(F('C11', 'parse_long', 'long results do not parse: %s' % e))
    status = sh['status']
    facts['status'] = status
    facts['observable'] = True
    cnt('observable')
    cnt('status_%s' % status)
    m = sh['stats'].get('matching')

    # ---- C02: Optimal exactly when feasible
    if sh['has_matching'] and status != 'Optimal':
        fs.append(F('C02', 'matching_iff_optimal', 'matching printed with status %r' % status))
    if status == 'Optimal' and not sh['has_matching']:
        fs.append(F('C02', 'matching_iff_optimal', 'status Optimal without a matching line'))
    if enumerable:
        cnt('c02_status_judged')
        if feasible and status != 'Optimal':
            fs.append(F('C02', 'status_vs_reference',
                        'status %r but %d matchings satisfy the requested constraints (e.g. %s)' % (
                            status, len(feasible), list(feasible[0])),
                        crit_names=[c[0] for c in crits]))
        if not feasible and status != 'Infeasible':
            fs.append(F('C02', 'status_vs_reference',
                        'status %r but no matching satisfies the requested constraints' % status))

    # ---- C16 (ii): order of optimisation lines
    opt_lines = [l for l in sh['info'] if l.startswith('optimisation:')]
    exp_kw = [c[0] for c in crits]
    if status == 'Optimal':
        got_ok = len(opt_lines) == len(exp_kw) and all(rm.line_matches(k, l) for k, l in zip(exp_kw, opt_lines))
    else:
        got_ok = len(opt_lines) <= len(exp_kw) and all(rm.line_matches(k, l) for k, l in zip(exp_kw, opt_lines))
        # "only the prefix up to the first solve that does not reach Optimal is reported": when the
        # trace lets us locate that solve, nothing after its criterion may be listed
        ev = ex['events']
        bad_at = next((i for i, e2 in enumerate(ev) if not (e2['status'] == 1 and e2['sol_status'] == 1)), None)
        if got_ok and crits and bad_at is not None:
            per = [len(rm.elementary_steps(inst, [c])) for c in crits]
            if all(n >= 1 for n in per):
                acc, ci = 0, None
                for idx, n in enumerate(per):
                    if bad_at < acc + n:
                        ci = idx
                        break
                    acc += n
                if ci is not None:
                    cnt('c16_prefix_located')
                    if len(opt_lines) > ci + 1:
                        got_ok = False
    cnt('c16_order_judged')
    if not got_ok:
        fs.append(F('C16', 'info_order', 'optimisation lines %r, expected order %r' % (opt_lines, exp_kw)))

    if status != 'Optimal' or m is None:
        # probe still applies: the real feasible set must be empty iff the reference is
        if probe_cap and enumerable and ex['prob'] is not None and ex['exc'] is None:
            _probe(ex, ref, fs, facts, probe_cap, probe_rng, cnt)
        return fs, facts

    # ---- C01: validity of the printed matching against the spec
    cnt('c01_matchings_judged')
    why = rm.validity(inst, m, opts['pc'])
    if why is not None:
        fs.append(F('C01', 'valid_matching', 'printed matching %s is not valid: %s' % (list(m), why)))
        facts['invalid'] = True
    if lg is not None and lg['stats'].get('matching') != m:
        fs.append(F('C11', 'short_long_agree', 'matching line differs between short %s and long %s' % (
            m, lg['stats'].get('matching'))))

    acceptable = why is None or not why.startswith(('length', 'student'))
    # ---- C05: stability of the reported matching; C06: stability_correct line
    if opts['stab'] and acceptable:
        cnt('c05_matchings_judged')
        bps = rm.blocking_pairs(inst, m, first_only=True)
        if bps:
            fs.append(F('C05', 'reported_stable', 'matching %s printed under -stab is blocked by %s' % (list(m), bps[0])))
        sc = sh['stats'].get('stability_correct')
        cnt('c06_stability_correct_lines')
        if sc != 'True':
            fs.append(F('C06', 'stability_correct_line', 'stability_correct: %r for matching %s (reference says %s)' % (
                sc, list(m), 'stable' if not bps else 'blocked by %s' % (bps[0],))))

    # ---- C11: statistics and listings
    if acceptable:
        cnt('c11_stats_judged')
        st = rm.stats(inst, m)
        for k in ('size', 'cost', 'cost_sq', 'degree', 'profile', 'max_lec_abs_diff', 'sum_lec_abs_diff'):
            exp = st[k]
            for nm, parsed in (('short', sh), ('long', lg)):
                if parsed is None:
                    continue
                got = parsed['stats'].get(k)
                if got is None:
                    fs.append(F('C11', 'stats', '%s format has no %s line' % (nm, k)))
                elif (list(got) if isinstance(got, (list, tuple)) else got) != (list(exp) if isinstance(exp, (list, tuple)) else exp):
                    fs.append(F('C11', 'stats', '%s: %s printed as %s, recomputed %s for matching %s' % (nm, k, got, exp, list(m))))
        if lg is not None:
            cnt('c11_long_judged')
            fs.extend(_judge_long(inst, m, st, lg))

    # ---- C03 / C04: optimality of the value vector
    if enumerable and acceptable and why is None and crits and feasible:
        steps = ref['steps']
        got_vec = rm.value_vector(m, steps)
        exp_vec = tuple(ref['vals'])
        prop = 'C03' if len(crits) == 1 else 'C04'
        cnt('c03_judged' if len(crits) == 1 else 'c04_judged')
        # does the criterion (sequence) discriminate?
        allvecs = {rm.value_vector(x, steps) for x in feasible} if steps else set()
        facts['discriminates'] = len(allvecs) >= 2
        if len(crits) == 1:
            facts['crit'] = crits[0][0]
        else:
            # conflict: a later criterion's unconstrained optimum differs from its optimum
            # within the set optimal for the earlier ones
            conflict = False
            labels = [l for l, _ in steps]
            seen = 0
            for ci, c in enumerate(crits):
                n = len(rm.elementary_steps(inst, [c]))
                if ci > 0 and n > 0 and seen > 0:
                    own = steps[seen:seen + n]
                    free_best = min(rm.value_vector(x, own) for x in feasible)
                    prev = ref['sets'][seen - 1]
                    if prev and min(rm.value_vector(x, own) for x in prev) != free_best:
                        conflict = True
                seen += n
            facts['conflict'] = conflict
        if m in feasible and got_vec != exp_vec:
            fs.append(F(prop, 'optimal_value',
                        'criteria %s: reported matching %s measures %s on steps %s, optimum is %s (e.g. %s)' % (
                            [(c[0], c[2]) for c in crits], list(m), got_vec, [l for l, _ in steps], exp_vec,
                            list(ref['final'][0]) if ref['final'] else None),
                        crit_names=[c[0] for c in crits]))
        # trace monitor: solution after solve t lies in the reference optimal set of steps 0..t
        ev = ex['events']
        if steps and len(ev) == len(steps) and all(e['status'] == 1 and e['fault'] is None for e in ev):
            cnt('c04_trace_judged')
            for t, e in enumerate(ev):
                mt = e.get('matching')
                if mt is None:
                    continue
                if mt not in ref['sets'][t]:
                    vec_t = rm.value_vector(mt, steps[:t + 1]) if rm.validity(inst, mt, opts['pc']) is None else None
                    fs.append(F('C04' if len(crits) > 1 else 'C03', 'trace_prefix_optimal',
                                'after solve %d (%s) the solution %s has prefix values %s, reference %s' % (
                                    t, steps[t][0], list(mt), vec_t, tuple(ref['vals'][:t + 1])),
                                crit_names=[c[0] for c in crits]))
                    break
        elif steps:
            cnt('c04_trace_shape_differs')
    elif enumerable and feasible and not crits:
        pass

    # ---- pin probe on the live LpProblem
    if probe_cap and enumerable and ex['prob'] is not None and ex['exc'] is None:
        _probe(ex, ref, fs, facts, probe_cap, probe_rng, cnt)
    return fs, facts


def _probe(ex, ref, fs, facts, cap, rng, cnt):
    inst = ref['inst']
    opts = ex['opts']
    try:
        pv = model_pairs(ex['solver'])
    except Exception:
        cnt('probe_absent')
        return
    # What any lexicographic implementation must satisfy for the LAST problem it handed to the back end:
    #   lower bound: every matching of the reference final optimal set is a point of it;
    #   upper bound: every point of it is valid (stable under -stab) and optimal for all elementary steps BEFORE the
    #   last solve (whether the last optimum is also frozen into that object afterwards is the implementation's
    #   business).  When the number of solves differs from the number of steps the upper bound is the plain feasible set.
    expect = set(ref['final'])
    steps_ = ref.get('steps') or []
    ev_ = ex['events']
    if steps_ and len(ev_) == len(steps_) and len(steps_) >= 2:
        upper = set(ref['sets'][len(steps_) - 2])
    else:
        upper = set(ref['feasible'])
    every = rm.all_acceptable_assignments(inst)
    if len(every) > cap:
        rng = rng or random.Random(0)
        pick = set(rng.sample(every, cap // 2))
        fin = list(expect)
        rng.shuffle(fin)
        pick.update(fin[:cap // 2])
        every = sorted(pick)
    if any(s < 1 or s > inst.ns for s, _p, _v in pv):
        cnt('probe_absent_model_differs_from_spec')
        return
    res = pin_probe(ex['prob'], pv, every, solver=None)
    cnt('probe_runs')
    cnt('probe_points', len(res))
    facts['probe_points'] = len(res)
    crits = sp.ordered_crits(opts)

    def confirmed(m, ok):
        # second opinion before an alarm: the same point with CBC's integer preprocessing off
        import pulp
        again = pin_probe(ex['prob'], pv, [m], solver=pulp.PULP_CBC_CMD(msg=False, options=['preprocess off']))
        if again.get(m) is ok:
            return True
        cnt('probe_backend_disagreement_no_alarm')
        return False

    for m, ok in res.items():
        if ok is None:
            cnt('probe_undecided')
            continue
        if (ok and m not in upper) or (not ok and m in expect):
            if not confirmed(m, ok):
                continue
        if ok and m not in upper:
            why = rm.validity(inst, m, opts['pc'])
            if why is not None:
                prop, what = 'C01', 'invalid (%s)' % why
            elif opts['stab'] and not rm.is_stable(inst, m):
                prop, what = 'C05', 'unstable (blocked by %s)' % (rm.blocking_pairs(inst, m, True)[0],)
            else:
                prop, what = ('C04' if len(crits) > 1 else 'C03'), 'not optimal for the criteria that were completed before the last solve, %s' % [(c[0], c[2]) for c in crits]
            fs.append(F(prop, 'pin_probe', 'the final integer program accepts %s, which is %s' % (list(m), what),
                        crit_names=[c[0] for c in crits]))
            return
        if not ok and m in expect:
            # a point of the reference optimal set is excluded
            if opts['stab'] and not crits:
                prop = 'C05'
            elif not crits:
                prop = 'C02'
            else:
                # excluded by constraints or by criteria?  decide with the plain feasible set
                prop = 'C04' if len(crits) > 1 else 'C03'
                if facts.get('status') != 'Optimal':
                    prop = 'C02'
            fs.append(F(prop, 'pin_probe', 'the final integer program excludes %s, which satisfies the requested constraints and is optimal' % (list(m),),
                        crit_names=[c[0] for c in crits], stab=opts['stab']))
            return


def _judge_long(inst, m, st, lg):
    fs = []
    try:
        sec = op.parse_long_sections(lg)
    except op.ParseError as e:
        return [F('C11', 'parse_long', 'long listing does not parse: %s' % e)]
    S, P, L = sec['students'], sec['projects'], sec['lecturers']
    if sorted(S) != list(range(1, inst.ns + 1)):
        fs.append(F('C11', 'long_students', 'students listed: %s, expected 1..%d each once' % (sorted(S), inst.ns)))
    else:
        for s in range(1, inst.ns + 1):
            p = m[s - 1]
            exp = None if not p else (p, inst.plec[p - 1])
            if S[s] != exp:
                fs.append(F('C11', 'long_students', 'student %d listed as %s, matching line implies %s' % (s, S[s], exp)))
                break
    if sorted(P) != list(range(1, inst.np + 1)):
        fs.append(F('C11', 'long_projects', 'projects listed: %s, expected 1..%d each once' % (sorted(P), inst.np)))
    else:
        for p in range(1, inst.np + 1):
            exp_st = sorted(s + 1 for s in range(inst.ns) if m[s] == p)
            d = P[p]
            if (sorted(d['students']) != exp_st or len(d['students']) != len(exp_st) or d['occ'] != len(exp_st)
                    or d['cap'] != inst.puq[p - 1] or d['lec'] != inst.plec[p - 1]):
                fs.append(F('C11', 'long_projects', 'project %d listed as %s; expected students %s, %d/%d, lecturer %d' % (
                    p, d, exp_st, len(exp_st), inst.puq[p - 1], inst.plec[p - 1])))
                break
    if sorted(L) != list(range(1, inst.nl + 1)):
        fs.append(F('C11', 'long_lecturers', 'lecturers listed: %s, expected 1..%d each once' % (sorted(L), inst.nl)))
    else:
        for k in range(1, inst.nl + 1):
            exp_pairs = sorted((s + 1, m[s]) for s in range(inst.ns) if m[s] and inst.plec[m[s] - 1] == k)
            d = L[k]
            if (sorted(d['pairs']) != exp_pairs or len(d['pairs']) != len(exp_pairs) or d['occ'] != len(exp_pairs)
                    or d['cap'] != inst.luq[k - 1] or d['target'] != inst.lt[k - 1]):
                fs.append(F('C11', 'long_lecturers', 'lecturer %d listed as %s; expected %s, %d/%d (%d)' % (
                    k, d, exp_pairs, len(exp_pairs), inst.luq[k - 1], inst.lt[k - 1])))
                break
    return fs
