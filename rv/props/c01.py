"""C01 - the reported matching is a valid matching of the input instance."""
from . import lpcommon as lc
from .. import refmodel as rm

ID = 'C01'
ANCHOR_FILES = ['solver/lp_solver.py', 'solver/model.py', 'solver/fileIO.py', 'solver/solver.py']
LEVEL = 'exploration'
RULE = ('random small HA/SM/HR/SPA specs (12 hostile shapes) rendered with whitespace noise x random option sets '
        '(-twopl/-pc/-stab, 0-4 criteria with admissible arguments, flags permuted); every underlying solve is '
        'followed by tie-break injection (an alternative optimal point verified with PuLP constraint.valid()); '
        'a case is non-trivial when the run is Optimal and the instance has >=2 valid matchings and >=1 acceptable '
        'but invalid assignment; distinct = distinct (instance, option set)')
ASSUMPTIONS = ['CBC decides the small pin-probe programs correctly', 'reference model in rv/refmodel.py encodes validity as stated in C01']
PROFILE = {'name': 'c01', 'spec': {}, 'opts': {}, 'medium_rate': 0.1, 'shipped_rate': 0.02, 'large_rate': 0.04}


def plan(tier):
    return {'cases_per_shard': 400 if tier == 'quick' else 9000,
            'time_cap_s': 90 if tier == 'quick' else 560}


def run_case(cs, ctx):
    quick = ctx.tier == 'quick'
    r = lc.lp_case(cs, ctx, PROFILE, probe_rate=0.12 if quick else 0.35, probe_cap=48 if quick else 160)
    f, ref = r['facts'], r['ref']
    if f.get('status') == 'Optimal' and ref['enumerable']:
        inst = ref['inst']
        nval = len(rm.enumerate_valid(inst, r['opts']['pc']))
        if nval >= 2 and inst.n_acceptable_assignments() > nval:
            ctx.nontrivial(lc.case_key(r['spec'], r['opts']))
        ctx.cov('na%d_%s' % (r['spec']['na'], 'two' if r['opts']['twopl'] else 'one'))
        ctx.cov('shape_' + r['spec']['shape'])
        if r['opts']['pc']:
            ctx.cov('with_pc')
        if r['opts']['stab']:
            ctx.cov('with_stab')
    ctx.sample(lc.brief(r))


def replay(w, ctx):
    run_case(w['case']['cs'], ctx)


def floors(m, tier):
    c = m['counters']
    need = 1500 if tier == 'quick' else 9000
    out = []
    if c.get('c01_matchings_judged', 0) < need:
        out.append('only %d printed matchings judged (< %d)' % (c.get('c01_matchings_judged', 0), need))
    if len(m['distinct']) < need // 3:
        out.append('only %d non-trivial cases (< %d)' % (len(m['distinct']), need // 3))
    if c.get('probe_points', 0) < (300 if tier == 'quick' else 5000):
        out.append('pin probe saw only %d points' % c.get('probe_points', 0))
    return out
