#!/bin/sh
# usage: tools/evalsum.sh Cxx [other props...]  -> evaluates seeds 1..3 in /tmp/wt_Cxx
p=$1; shift
W=${WT_PREFIX:-/tmp/wt_}
for k in 1 2 3; do
  [ -f $W$p/seeded_out/patch_$k.diff ] || continue
  /verif/tools/evalseed.py $W$p $k $p "$@" 2>/dev/null | /venv/bin/python -c "
import sys,json
t=sys.stdin.read()
try:
    d=json.loads(t[t.index('{'):])
    print(d['property'],d['k'],'confirmed' if d['confirmed'] else 'NOT-CONFIRMED clean=%s tests=%s patched=%s'%(d['demo_clean_exit'],d['tests_pass'],d['demo_patched_exit']),{p:(c['exit'],c['first_finding'][:170]) for p,c in d['checks'].items()})
except Exception as e: print('ERR',t[-300:])
"
done
