"""Strict parsers for the repository's public text: LP results (short/long),
brute-force results, get_debug text and generated instance files.

A ParseError is reported by the caller as a violation of the property that owns
that text; it is never a harness crash.  Unknown extra lines are ignored; the
tokens the properties talk about are parsed strictly.
"""
import re


class ParseError(Exception):
    pass


_KV = re.compile(r'^([A-Za-z_]+): ?(.*)$')
_INT = re.compile(r'^-?\d+$')


def _pair(txt):
    m = re.match(r'^\((-?\d+), (-?\d+)\)$', txt.strip())
    if not m:
        raise ParseError('not an integer pair: %r' % txt)
    return (int(m.group(1)), int(m.group(2)))


def _profile(txt):
    m = re.match(r'^<((?: -?\d+)*) >$', txt.strip())
    if not m:
        raise ParseError('not a profile: %r' % txt)
    return [int(x) for x in m.group(1).split()]


def parse_results(text):
    """Parse short or long LP results."""
    if not isinstance(text, str):
        raise ParseError('results are %s, not str' % type(text).__name__)
    res = {'info': [], 'timeout': None, 'status': None, 'kv': {}, 'students': None,
           'projects': None, 'lecturers': None, 'has_matching': False}
    section = None
    for raw in text.split('\n'):
        line = raw.rstrip()
        if not line:
            continue
        if line.startswith('#'):
            continue
        if line.startswith('- '):
            res['info'].append(line[2:].strip())
            continue
        if line.startswith('Timeout:'):
            res['timeout'] = line[len('Timeout:'):].strip()
            continue
        if line in ('Student_assignments:', 'Project_assignments:', 'Lecturer_assignments:'):
            section = line.split('_')[0].lower() + 's'
            res[section] = []
            continue
        if section:
            res[section].append(line)
            continue
        m = _KV.match(line)
        if m:
            k, v = m.group(1), m.group(2)
            if k == 'pulp_status':
                res['status'] = v.strip()
            else:
                if k in res['kv']:
                    raise ParseError('line %r repeated' % k)
                res['kv'][k] = v
            continue
    kv = res['kv']
    out = {}
    if 'matching' in kv:
        res['has_matching'] = True
        toks = kv['matching'].split()
        for t in toks:
            if not _INT.match(t):
                raise ParseError('matching token %r' % t)
        out['matching'] = tuple(int(t) for t in toks)
    for k in ('size', 'degree', 'max_lec_abs_diff', 'sum_lec_abs_diff'):
        if k in kv:
            if not _INT.match(kv[k].strip()):
                raise ParseError('%s: %r' % (k, kv[k]))
            out[k] = int(kv[k])
    for k in ('cost', 'cost_sq'):
        if k in kv:
            out[k] = _pair(kv[k])
    if 'profile' in kv:
        out['profile'] = _profile(kv['profile'])
    if 'stability_correct' in kv:
        out['stability_correct'] = kv['stability_correct'].strip()
    res['stats'] = out
    res['any_statistic'] = any(k in kv for k in (
        'matching', 'size', 'cost', 'cost_sq', 'degree', 'profile',
        'max_lec_abs_diff', 'sum_lec_abs_diff', 'stability_correct')) or any(
        res[s] is not None for s in ('students', 'projects', 'lecturers'))
    return res


def parse_long_sections(res):
    """Decode the three listings of the long format."""
    out = {'students': {}, 'projects': {}, 'lecturers': {}}
    if res['students'] is None or res['projects'] is None or res['lecturers'] is None:
        raise ParseError('a listing section is missing')
    for line in res['students']:
        m = re.match(r'^\s*s_(\d+):\s+p_(\d+)\s+\(l_(\d+)\)\s*$', line)
        if m:
            sid, val = int(m.group(1)), (int(m.group(2)), int(m.group(3)))
        else:
            m = re.match(r'^\s*s_(\d+):?\s+no\s+assignment\s*$', line)
            if not m:
                raise ParseError('student line %r' % line)
            sid, val = int(m.group(1)), None
        if sid in out['students']:
            raise ParseError('student %d listed twice' % sid)
        out['students'][sid] = val
    for line in res['projects']:
        m = re.match(r'^\s*p_(\d+)\s+\(l_(\d+)\):\s*(.*?)\s+(\d+)\s*/\s*(\d+)\s*$', line)
        if not m:
            raise ParseError('project line %r' % line)
        pid = int(m.group(1))
        body = m.group(3).strip()
        if re.sub(r'\s+', ' ', body) == 'no assignment':
            studs = []
        else:
            studs = []
            for t in body.split():
                mm = re.match(r'^s_(\d+)$', t)
                if not mm:
                    raise ParseError('project line %r' % line)
                studs.append(int(mm.group(1)))
        if pid in out['projects']:
            raise ParseError('project %d listed twice' % pid)
        out['projects'][pid] = {'lec': int(m.group(2)), 'students': studs,
                                'occ': int(m.group(4)), 'cap': int(m.group(5))}
    for line in res['lecturers']:
        m = re.match(r'^\s*l_(\d+):\s*(.*?)\s+(\d+)\s*/\s*(\d+)\s+\((-?\d+)\)\s*$', line)
        if not m:
            raise ParseError('lecturer line %r' % line)
        lid = int(m.group(1))
        body = m.group(2).strip()
        pairs = []
        if re.sub(r'\s+', ' ', body) != 'no assignment':
            items = re.findall(r's_(\d+)\s+\(p_(\d+)\)', body)
            if re.sub(r's_\d+\s+\(p_\d+\)', '', body).strip():
                raise ParseError('lecturer line %r' % line)
            pairs = [(int(a), int(b)) for a, b in items]
        if lid in out['lecturers']:
            raise ParseError('lecturer %d listed twice' % lid)
        out['lecturers'][lid] = {'pairs': pairs, 'occ': int(m.group(3)),
                                 'cap': int(m.group(4)), 'target': int(m.group(5))}
    return out


BF_KEYS = ['optimal_size', 'optimal_maxsizemincost', 'optimal_maxsizemindegree',
           'optimal_maxsizeminsqcost', 'optimal_generousmaxprofile',
           'optimal_greedymaxprofile', 'optimal_greedyprofile',
           'optimal_max_lec_abs_diff', 'optimal_sum_lec_abs_diff']


def parse_bf(text):
    if not isinstance(text, str):
        raise ParseError('results are %s, not str' % type(text).__name__)
    res = {'infeasible': False, 'vals': {}}
    for raw in text.split('\n'):
        line = raw.strip()
        if not line or line.startswith('#'):
            continue
        if line == 'Infeasible':
            res['infeasible'] = True
            continue
        m = _KV.match(line)
        if not m:
            continue
        k, v = m.group(1), m.group(2).strip()
        if k not in BF_KEYS:
            continue
        if k in res['vals']:
            raise ParseError('line %r repeated' % k)
        if k.endswith('profile'):
            res['vals'][k] = _profile(v)
        elif k in ('optimal_maxsizemincost', 'optimal_maxsizeminsqcost'):
            res['vals'][k] = _pair(v)
        else:
            if not _INT.match(v):
                raise ParseError('%s: %r' % (k, v))
            res['vals'][k] = int(v)
    if res['infeasible'] and res['vals']:
        raise ParseError('Infeasible together with optimal_* lines')
    if not res['infeasible']:
        missing = [k for k in BF_KEYS if k not in res['vals']]
        if missing:
            raise ParseError('missing lines: %s' % missing)
    return res


_PAIRTXT = re.compile(r'\(s(\d+) p(\d+) rs(\d+) l(\d+)(?: rl(\d+))?\)')


def parse_debug(text, nrows=None):
    """Parse get_debug(): the Model instance block (one row per student).  With nrows
    given, exactly that many lines after the block title are read, so additional
    sections an implementation may append afterwards are ignored."""
    if not isinstance(text, str):
        raise ParseError('debug is %s, not str' % type(text).__name__)
    if 'Model instance information:' not in text:
        raise ParseError('no "Model instance information:" block')
    head, tail = text.split('Model instance information:', 1)
    rows = []
    body = tail.split('\n')[1:]
    if nrows is not None:
        body = body[:nrows]
    for line in body:
        if not line.strip():
            rows.append([])
            continue
        items = _PAIRTXT.findall(line)
        rest = _PAIRTXT.sub('', line).strip()
        if rest:
            raise ParseError('debug pair line %r' % line)
        rows.append([tuple(int(x) if x != '' else None for x in it) for it in items])
    # the final newline leaves exactly one empty string after split
    if nrows is None and rows and rows[-1] == []:
        rows.pop()
    return {'rows': rows, 'head': head}


# ------------------------------------------------------------ instance files

def parse_groups(tokens):
    """Tokens like ['(3','4)','1'] -> tie groups [[3,4],[1]] (strict)."""
    groups, cur = [], None
    for t in tokens:
        m = re.match(r'^(\()?(\d+)(\))?$', t)
        if not m:
            raise ParseError('bad preference token %r' % t)
        op, num, cl = m.group(1), int(m.group(2)), m.group(3)
        if op and cl:
            raise ParseError('tie group of one: %r' % t)
        if op:
            if cur is not None:
                raise ParseError('nested parenthesis at %r' % t)
            cur = [num]
        elif cl:
            if cur is None:
                raise ParseError('unbalanced ) at %r' % t)
            cur.append(num)
            groups.append(cur)
            cur = None
        else:
            if cur is not None:
                cur.append(num)
            else:
                groups.append([num])
    if cur is not None:
        raise ParseError('unbalanced ( at end of list')
    return groups


def parse_instance_file(text, na):
    """Strict parser of a generated instance file -> (spec-like dict, params)."""
    lines = text.split('\n')
    if not lines or not lines[0].strip():
        raise ParseError('empty header')
    head = lines[0].split()
    if len(head) != na or not all(_INT.match(x) for x in head):
        raise ParseError('header %r for %d agent types' % (lines[0], na))
    ns, np_ = int(head[0]), int(head[1])
    nl = int(head[2]) if na == 3 else np_
    idx = 1
    spec = {'na': na, 'ns': ns, 'np': np_, 'nl': nl, 'st': [], 'plq': [], 'puq': [],
            'plec': [], 'llq': [], 'lt': [], 'luq': [], 'lec': []}

    def fields(line, nfields):
        parts = line.split(':')
        if len(parts) != nfields + 1:
            raise ParseError('expected %d colon fields in %r' % (nfields, line))
        return [p.strip() for p in parts[:-1]], parts[-1].split()

    for s in range(ns):
        if idx >= len(lines):
            raise ParseError('file ends inside the first-side lists')
        f, toks = fields(lines[idx], 1)
        if f[0] != str(s + 1):
            raise ParseError('first-side line %d numbered %r' % (s + 1, f[0]))
        spec['st'].append(parse_groups(toks))
        idx += 1
    if na == 2:
        for j in range(np_):
            if idx >= len(lines):
                raise ParseError('file ends inside the second-side lines')
            f, toks = fields(lines[idx], 3)
            if f[0] != str(j + 1) or not _INT.match(f[1]) or not _INT.match(f[2]):
                raise ParseError('second-side line %r' % lines[idx])
            spec['plq'].append(int(f[1]))
            spec['puq'].append(int(f[2]))
            spec['plec'].append(j + 1)
            spec['lec'].append(parse_groups(toks))
            idx += 1
        spec['llq'], spec['lt'], spec['luq'] = list(spec['plq']), list(spec['puq']), list(spec['puq'])
    else:
        for j in range(np_):
            if idx >= len(lines):
                raise ParseError('file ends inside the project lines')
            parts = [p.strip() for p in lines[idx].split(':')]
            if len(parts) != 4 or parts[0] != str(j + 1) or not all(_INT.match(x) for x in parts[1:]):
                raise ParseError('project line %r' % lines[idx])
            spec['plq'].append(int(parts[1]))
            spec['puq'].append(int(parts[2]))
            spec['plec'].append(int(parts[3]))
            idx += 1
        for k in range(nl):
            if idx >= len(lines):
                raise ParseError('file ends inside the lecturer lines')
            f, toks = fields(lines[idx], 4)
            if f[0] != str(k + 1) or not all(_INT.match(x) for x in f[1:]):
                raise ParseError('lecturer line %r' % lines[idx])
            spec['llq'].append(int(f[1]))
            spec['lt'].append(int(f[2]))
            spec['luq'].append(int(f[3]))
            spec['lec'].append(parse_groups(toks))
            idx += 1
    if idx >= len(lines) or lines[idx].strip() != '':
        raise ParseError('no blank line before the parameter block')
    idx += 1
    if idx >= len(lines) or lines[idx].strip() != 'instance generation parameters':
        raise ParseError('parameter block header missing')
    params = {}
    for line in lines[idx + 1:]:
        if not line.strip():
            continue
        m = re.match(r'^([a-z_0-9]+): (.*)$', line)
        if not m:
            raise ParseError('parameter line %r' % line)
        if m.group(1) in params:
            raise ParseError('parameter %r repeated' % m.group(1))
        params[m.group(1)] = m.group(2).strip()
    return spec, params
