"""C08 - generated files are well-formed instances of the requested type and parameters."""
import os
import random

from . import lpcommon as lc
from .. import engine as en
from .. import genengine as ge

ID = 'C08'
ANCHOR_FILES = ['generator/generator.py', 'generator/generator_ha_sm_hr.py', 'generator/generator_spa.py', 'generator/generator_shared.py', 'generator/instance_options_parser.py']
LEVEL = 'exploration'
NEEDS_DEPS = True
EVAL_COUNTER = 'generator_runs'
RULE = ('random accepted parameter vectors for ha/sm/hr/spa (n <= 12, n3 > n2, luq < n3, pmin = pmax, pmax = n2, tie '
        'probabilities 0 / 1 / interior, skew 0.2..50, one-/two-sided, 1-4 instances) x harness-seeded RNGs; every file is parsed '
        'strictly and checked against the request (file names, header, list lengths/distinctness/range, even spreading of quotas, '
        'targets and projects per lecturer, lower<=target<=upper, parameter block echo, ties at probability 0/1 per side, '
        'second-side text only when two-sided); the audit hook verifies that only <dir>/0.txt.. are written; every 12th case is '
        'a length-coverage run (>= 200 lists for a (pmin,pmax) class of width <= 6) whose observed set of lengths must equal the '
        'whole range (false-alarm probability < 1e-12 by sample size); icontract postconditions on create_quotas, '
        'create_project_lecturers, create_string_pref, create_linear_distribution; non-trivial = distinct (type, parameter vector); '
        'evaluations = generator runs')
ASSUMPTIONS = ['numpy/random global RNGs seeded by the harness make each run reproducible']


def plan(tier):
    return {'cases_per_shard': 260 if tier == 'quick' else 5000,
            'time_cap_s': 90 if tier == 'quick' else 560}


def run_case(cs, ctx):
    lc.contracts_on(ctx)
    rng = random.Random(cs)
    coverage_run = cs % 12 == 0
    if coverage_run:
        v = ge.legal_vector(rng, max_n1=12, max_n2=8)
        n2 = v['n1'] if v['mp'] == 'sm' else v['n2']
        v['numinst'] = 4
        if v['mp'] == 'sm':
            v['n1'] = 50
            n2 = 50
        else:
            v['n1'] = 50
        if v['mp'] != 'sm' and rng.random() < 0.3:
            # many rankable agents, short lists of one fixed length
            n2 = v['n2'] = rng.randint(20, 40)
            v['uq'] = n2 + rng.randint(0, 5)
            v.pop('lq', None)
            if v['mp'] == 'spa':
                v['n3'] = min(v['n3'], n2)
            ctx.cov('coverage_run_with_20_or_more_rankable_agents')
        width = rng.randint(2, min(6, n2)) if n2 >= 2 else 1
        if n2 >= 20 and rng.random() < 0.7:
            width = 1
        v['pmin'] = rng.randint(1, n2 - width + 1) if n2 < 20 else rng.randint(2, 3)
        v['pmax'] = v['pmin'] + width - 1
        if v['mp'] == 'spa':
            v['luq'] = max(v['luq'], 1)
            if v.get('lt') is not None:
                v['lt'] = min(v['lt'], v['luq'])
                if v.get('llq') is not None:
                    v['llq'] = min(v['llq'], v['lt'])
    else:
        v = ge.legal_vector(rng)
        if rng.random() < 0.05:
            v['numinst'] = rng.randint(10, 13)      # two-digit file names
        if cs % 150 == 77 and v['mp'] in ('ha', 'hr'):
            # a first-side list with more than 1000 entries
            v.update({'n1': 2, 'n2': 1200, 'pmin': rng.randint(1050, 1150), 'uq': 1200, 'numinst': 1, 't1': rng.choice([0.0, None, 0.2])})
            v['pmax'] = v['pmin']
            v.pop('lq', None)
            ctx.cov('first_side_list_longer_than_1000')
        if cs % 40 == 11 and v['mp'] in ('ha', 'hr'):
            # first-side lists of 258..330 entries with dense ties (a tie regularly runs to the end of the list)
            n2 = rng.randint(258, 330)
            v.update({'n1': 3, 'n2': n2, 'pmin': rng.randint(258, n2), 'uq': n2 + 5, 'numinst': 1, 't1': rng.choice([1.0, 0.85, 0.5])})
            v['pmax'] = v['pmin']
            v.pop('lq', None)
            ctx.cov('first_side_list_of_258_or_more_entries_with_dense_ties')
        if ctx.shard == 1 and not getattr(ctx, '_did_66k', False) and v['mp'] in ('ha', 'hr'):
            # more than 65535 rankable agents (ids no longer fit 16 bits), lists long enough to reach the high ids
            ctx._did_66k = True
            v.update({'n1': 2, 'n2': 66000, 'pmin': 3000, 'pmax': 3000, 'uq': 66000 + rng.randint(0, 9), 'numinst': 1, 't1': 0.0})
            v.pop('lq', None)
            ctx.cov('more_than_65535_rankable_agents')
        elif cs % 40 == 16 and v['mp'] in ('ha', 'hr', 'spa'):
            # quota sums that no double represents exactly (accepted: -uq only has to be at least n2)
            big = rng.choice([10 ** 17 + 1, 2 ** 60 + 5, 9007199254740993, 123456789012345678901])
            v['uq'] = big + rng.randint(0, 6)
            if rng.random() < 0.5:
                v['lq'] = rng.choice([0, 2 ** 53 + 3, v['uq'] - 1])
            else:
                v.pop('lq', None)
            if v['mp'] == 'spa':
                v['luq'] = big + rng.randint(0, 6)
                v['lt'] = rng.choice([v['luq'], v['luq'] - 3, 2 ** 53 + 1])
                v['llq'] = rng.choice([0, 2 ** 53 + 1, v['lt']])
            ctx.cov('quota_sums_beyond_2_to_the_53')
        if cs % 40 == 12 and v['mp'] == 'hr':
            # one hospital ranked by 258..330 residents, dense ties on the second side
            n1 = rng.randint(258, 330)
            v.update({'n1': n1, 'n2': 1, 'pmin': 1, 'pmax': 1, 'uq': n1 + 5, 'numinst': 1, 't2': rng.choice([1.0, 0.85, 0.5]), 'twopl': True})
            v.pop('lq', None)
            ctx.cov('second_side_list_of_258_or_more_entries_with_dense_ties')
    outdir = ge.fresh_outdir(ctx.workdir, 'c08')
    argv = ge.to_argv(v, outdir, rng)
    case = {'cs': cs, 'vector': v, 'argv': [a if a != outdir else '<outdir>' for a in argv]}
    retry_case = False
    rerun = (not coverage_run) and cs % 10 == 3
    if rerun:
        # the directory already exists and already holds files of an earlier run
        first = ge.run_generator(argv, cs ^ 0x5555)
        ctx.cov('second_run_into_existing_directory')
    elif cs % 10 == 4:
        import os as _os
        _os.makedirs(outdir)
        ctx.cov('existing_empty_directory')
    if (not coverage_run) and (not rerun) and cs % 10 != 4 and cs % 25 == 8 and v['numinst'] >= 2:
        # failure at a particular point: 1.txt cannot be written (a directory of that name is in the way), the
        # run dies; the obstacle is removed and the same legal run must then succeed
        import os as _os
        import shutil as _sh
        _os.makedirs(_os.path.join(outdir, '1.txt'))
        failed = ge.run_generator(argv, cs ^ 0x77)
        _sh.rmtree(_os.path.join(outdir, '1.txt'), ignore_errors=True)
        ctx.cov('retry_after_a_run_that_died_half_way')
        rerun = True
        retry_case = True
    res = ge.run_generator(argv, cs)
    ctx.cnt('generator_runs')
    if retry_case and (res['exit'] is not None or res['exc'] is not None):
        ctx.finding(en.F('C08', 'retry_after_failed_run', 'an earlier run into this directory died half way (1.txt could not be written); after the '
                         'obstacle was removed the same accepted run fails: exit=%r exc=%r' % (res['exit'], res['exc'])), case)
        return
    if res['exit'] is not None or res['exc'] is not None:
        # acceptance of legal vectors is C15's monitor; here the run is unobservable
        ctx.cnt('unobservable_generator_failed')
        ctx.finding(en.F('C15', 'legal_accepted', 'legal vector not accepted: exit=%r exc=%r' % (res['exit'], res['exc'])), case)
        return
    ctx.cov('type_' + v['mp'])
    ctx.nontrivial(en.sp.shash({k: v[k] for k in v if k != 'numinst'}))
    # files written
    names = ge.list_outputs(outdir)
    want = ['%d.txt' % i for i in range(v['numinst'])]
    if names is None or sorted(names) != sorted(want):
        ctx.finding(en.F('C08', 'file_names', 'output directory holds %s, expected %s' % (names, want)), case)
        return
    allowed = {os.path.join(outdir, n) for n in want} | {outdir, os.path.dirname(outdir)}
    case['second_run_into_existing_directory'] = rerun
    # transient files inside the output directory (write-then-rename) are the implementation's business: the
    # final directory listing is checked above; what must not happen is a write outside the requested directory
    top = ge.top_of(outdir)
    allowed.add(top)
    root = top + os.sep
    bad = [e for e in res['fs'] if e[0] != 'open_r' and e[1] not in allowed and not str(e[1]).startswith(root)]
    ctx.cnt('fs_events_audited', len(res['fs']))
    if bad:
        ctx.finding(en.F('C08', 'fs_audit', 'the run wrote outside the requested files: %s' % bad[:4]), case)
    lengths = set()
    adj = tied = 0
    for n in want:
        text = open(os.path.join(outdir, n)).read()
        ctx.cnt('files_checked')
        probs, spec = ge.check_file(text, v)
        for p in probs[:3]:
            ctx.finding(en.F('C08', 'file_check', '%s/%s: %s' % (v['mp'], n, p), file=text), case)
        if spec:
            for l in spec['st']:
                flat = [x for g in l for x in g]
                lengths.add(len(flat))
                adj += max(0, len(flat) - 1)
                tied += sum(len(g) - 1 for g in l)
            case['file'] = text
    e = ge.effective(v)
    if e['t1'] == 0.0:
        ctx.cov('t1_zero')
    elif e['t1'] == 1.0:
        ctx.cov('t1_one')
    if v.get('twopl') and e['t2'] in (0.0, 1.0):
        ctx.cov('t2_zero_or_one_two_sided')
    if v['mp'] == 'spa' and v['n3'] > v['n2']:
        ctx.cov('more_lecturers_than_projects')
    if v['mp'] == 'spa' and v['luq'] < v['n3']:
        ctx.cov('zero_capacity_lecturers')
    if not v.get('twopl'):
        ctx.cov('one_sided')
    if coverage_run:
        ctx.cnt('length_coverage_runs')
        full = set(range(v['pmin'], v['pmax'] + 1))
        if lengths != full:
            ctx.finding(en.F('C08', 'length_coverage', '%d lists drawn with pmin=%d pmax=%d only have lengths %s' % (
                4 * v['n1'], v['pmin'], v['pmax'], sorted(lengths))), case)
        if adj:
            ctx.cnt('tie_freq_adjacent_pairs', adj)
            ctx.cnt('tie_freq_tied_pairs', tied)
            ctx.cnt('tie_freq_expected_x1000', int(round(1000 * e['t1'] * adj)))
    lc.harvest_contracts(ctx, case)
    ctx.sample({'argv': case['argv'], 'file_0': case.get('file', '')[:1200]}, cap=2)


def replay(w, ctx):
    run_case(w['case']['cs'], ctx)


def floors(m, tier):
    out = []
    c, cov = m['counters'], m['cover']
    need = 3000 if tier == 'quick' else 60000
    if c.get('files_checked', 0) < need:
        out.append('only %d files checked' % c.get('files_checked', 0))
    for k in ('type_ha', 'type_sm', 'type_hr', 'type_spa', 't1_zero', 't1_one', 't2_zero_or_one_two_sided',
              'more_lecturers_than_projects', 'zero_capacity_lecturers', 'one_sided', 'second_run_into_existing_directory',
              'existing_empty_directory'):
        if cov.get(k, 0) < 15:
            out.append('class %s seen %d times' % (k, cov.get(k, 0)))
    if c.get('length_coverage_runs', 0) < need // 40:
        out.append('only %d length-coverage runs' % c.get('length_coverage_runs', 0))
    # contracts on helper functions are auxiliary monitors: absent helpers are reported in the evidence only
    if c.get('contract_evals_contract_errors', 0):
        out.append('%d internal contract errors' % c['contract_evals_contract_errors'])
    return out


def coverage_extra(m, tier):
    c = m['counters']
    aux = {k: ('%d evaluations' % c['contract_evals_' + k]) if c.get('contract_evals_' + k) else 'absent (never evaluated)'
           for k in ('create_quotas', 'create_string_pref', 'create_linear_distribution', 'create_project_lecturers')}
    adj = c.get('tie_freq_adjacent_pairs', 0)
    return {'auxiliary_contracts': aux, 'empirical_tie_frequency_first_side': {
        'adjacent_pairs': adj, 'tied': c.get('tie_freq_tied_pairs', 0),
        'expected_from_requested_probabilities': c.get('tie_freq_expected_x1000', 0) / 1000.0,
        'note': 'reported, not a verdict (C08 only states the 0 and 1 cases)'}}
