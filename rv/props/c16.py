"""C16 - criteria run in position order; invalid solver option sets are refused."""
import random

from . import lpcommon as lc
from .. import engine as en
from .. import outparse as op
from .. import refmodel as rm
from .. import spec as sp
from ..taps import FS, TAP

ID = 'C16'
ANCHOR_FILES = ['solver/options_parser.py', 'solver/lp_solver.py', 'solver/solver.py']
LEVEL = 'exploration'
EVAL_COUNTER = 'option_sets'
RULE = ('random assignments position in {absent, -2..12} to the nine criteria (biased to 0,1,9,10 and to collisions), flags in '
        'random permutation, random extra-argument vectors, with and without -twopl/-stab/-pc; VALID sets: '
        'Options_parser.optimisation_options must equal the criteria sorted by position with their extras attached, a second '
        'permutation of the flags must give the same, and (on a tiny instance, admissible extras) the "- optimisation:" lines of '
        'the results must be in that order (a prefix when the status is not Optimal); INVALID sets (position outside 1..9, shared '
        'position, -stab without -twopl): Solver(args) must end in SystemExit(2) with a usage message, the audit hook must not '
        'see the instance file opened and the LP tap must not see a solve; non-trivial = valid set with >= 2 criteria whose flag '
        'order differs from the position order, or an invalid set; distinct = distinct option set; evaluations = option sets')
ASSUMPTIONS = ['criterion lines of the results are recognised by word stems (rv/refmodel.line_matches)']
ENUM2NAME = {'MAXSIZE': 'maxsize', 'MINSIZE': 'minsize', 'GENEROUS': 'gen', 'GREEDY': 'gre', 'MINCOST': 'mincost',
             'MINSQCOST': 'minsqcost', 'LOADMAXBAL': 'lmb', 'LOADSUMBAL': 'lsb', 'MINCOSTLSB': 'mincostlsb'}
WITH_EXTRAS = ('gen', 'gre', 'mincost', 'minsqcost', 'mincostlsb')


def plan(tier):
    return {'cases_per_shard': 900 if tier == 'quick' else 18000,
            'time_cap_s': 90 if tier == 'quick' else 560}


def draw_positions(rng):
    mode = rng.random()
    k = rng.choice([1, 2, 2, 3, 3, 4, 5, 9])
    names = rng.sample(sp.CRITS, k)
    if mode < 0.5:      # valid
        pos = rng.sample(range(1, 10), k)
    elif mode < 0.7:    # collision
        pos = rng.sample(range(1, 10), k)
        if k >= 2:
            i, j = rng.sample(range(k), 2)
            pos[i] = pos[j]
        else:
            pos = [rng.choice([0, 10])]
    elif mode < 0.9:    # out of range somewhere
        pos = rng.sample(range(1, 10), k)
        pos[rng.randrange(k)] = rng.choice([0, 0, 10, 10, -1, -2, 11, 12])
    else:               # anything
        pos = [rng.randint(-2, 12) for _ in range(k)]
    return list(zip(names, pos))


def observed_order(s):
    out = []
    for opt, extras in s.options_parser.optimisation_options:
        out.append((ENUM2NAME.get(getattr(opt, 'name', str(opt)), str(opt)), list(extras or [])))
    return out


def run_case(cs, ctx):
    from matchingproblems.solver import Solver
    rng = random.Random(cs)
    spec = sp.make_spec(rng, max_s=3, max_p=3, max_l=2)
    if cs % 40 == 9:
        spec = sp.make_zero_student_spec(rng)
        ctx.cov('instance_without_students')
    R = sp.max_rank(spec)
    twopl = rng.random() < 0.6
    stab = rng.random() < 0.3
    pc = rng.random() < 0.2
    crits = []
    for name, pos in draw_positions(rng):
        c = sp.make_crit(rng, name, pos, max(R, 1))
        if name == 'gen' and R == 0:
            c[2] = []
        crits.append(c)
    positions = [c[1] for c in crits]
    bad_range = any(p < 1 or p > 9 for p in positions)
    bad_dup = len(set(positions)) != len(positions)
    bad_stab = stab and not twopl
    invalid = bad_range or bad_dup or bad_stab
    bf = rng.random() < 0.12
    opts = {'twopl': twopl, 'stab': stab, 'pc': pc, 'crits': crits, 'bf': bf}
    if bf:
        ctx.cov('with_bf_flag')
    text = sp.render(spec, rng=rng, second_side=True, noise=False)
    path = en.write_file(ctx.workdir, text)
    flags = sp.opts_to_argv(opts, rng)
    argv = ['-f', path, '-na', str(spec['na'])] + flags
    case = {'cs': cs, 'argv': ['-f', '<file>'] + argv[2:], 'file': text, 'invalid': invalid}
    ctx.cnt('option_sets')
    TAP.reset()
    TAP.install()
    FS.install()
    FS.start()
    import contextlib
    import io
    err = io.StringIO()
    s, code, exc = None, None, None
    try:
        with contextlib.redirect_stderr(err):
            s = Solver(list(argv))
    except SystemExit as e:
        code = e.code
    except Exception as e:
        exc = en.exc_info(e)
    fs = FS.stop()
    nsolves = len(TAP.events)
    TAP.enabled = False
    if invalid:
        kind = 'range' if bad_range else 'duplicate' if bad_dup else 'stab_without_twopl'
        ctx.cov('invalid_' + kind)
        ctx.nontrivial(sp.shash([flags]))
        if exc is not None:
            ctx.finding(en.F('C16', 'refuses_invalid', 'invalid option set (%s) raised %s: %s instead of a usage error' % (
                kind, exc['type'], exc['msg']), kind=kind), case)
        elif code is None:
            ctx.finding(en.F('C16', 'refuses_invalid', 'invalid option set (%s) was accepted: %s' % (kind, flags), kind=kind), case)
        elif code != 2 or 'usage' not in err.getvalue().lower():
            ctx.finding(en.F('C16', 'refuses_invalid', 'invalid option set (%s): exit code %r, stderr %r' % (
                kind, code, err.getvalue()[-150:]), kind=kind), case)
        opened = [e for e in fs if e[1] == path]
        ctx.cnt('refusals_audited')
        if opened:
            ctx.finding(en.F('C16', 'refuses_before_reading', 'invalid option set (%s): the instance file was opened before the refusal' % kind,
                             kind=kind), case)
        # the identical argument vector a second time in the same process must be refused again
        if code == 2 and exc is None:
            try:
                with contextlib.redirect_stderr(io.StringIO()):
                    Solver(list(argv))
                ctx.finding(en.F('C16', 'refuses_invalid', 'invalid option set (%s) was refused the first time but accepted when presented '
                                 'again: %s' % (kind, flags), kind=kind), case)
            except SystemExit:
                ctx.cnt('refusals_repeated')
            except Exception as e:
                ctx.finding(en.F('C16', 'refuses_invalid', 'invalid option set (%s) presented a second time raised %s: %s' % (
                    kind, type(e).__name__, e), kind=kind), case)
        if nsolves:
            ctx.finding(en.F('C16', 'refuses_before_solving', 'invalid option set (%s): %d solves before the refusal' % (kind, nsolves),
                             kind=kind), case)
        return
    # ---- valid set
    ctx.cov('valid_sets')
    if code is not None or exc is not None:
        ctx.finding(en.F('C16', 'accepts_valid', 'valid option set refused: exit=%r exc=%r stderr=%r' % (code, exc, err.getvalue()[-150:])), case)
        return
    want = [(c[0], list(c[2])) for c in rm.expected_order(crits)]
    got = observed_order(s)
    ctx.cnt('orders_judged')
    if got != want:
        ctx.finding(en.F('C16', 'parser_order', 'optimisation_options = %s, expected %s from positions %s' % (
            got, want, [(c[0], c[1]) for c in crits])), case)
    flag_names = [sp.crit_of_flag(a) for a in flags if sp.crit_of_flag(a)]
    if len(crits) >= 2 and flag_names != [w[0] for w in want]:
        ctx.nontrivial(sp.shash([flags]))
        ctx.cov('flag_order_differs_from_position_order')
    if any(b[1] - a[1] > 1 for a, b in zip(rm.expected_order(crits), rm.expected_order(crits)[1:])):
        ctx.cov('gaps_in_numbering')
    if any(c[2] for c in crits):
        ctx.cov('with_extras')
    # (iii) another permutation of the flags
    flags2 = sp.opts_to_argv(opts, random.Random(cs ^ 0x77))
    try:
        s2 = Solver(['-f', path, '-na', str(spec['na'])] + flags2)
        ctx.cnt('permutations_judged')
        if observed_order(s2) != got:
            ctx.finding(en.F('C16', 'flag_permutation', 'flags %s give %s, flags %s give %s' % (flags, got, flags2, observed_order(s2))), case)
    except BaseException as e:
        ctx.finding(en.F('C16', 'flag_permutation', 'permuted flags %s refused: %s' % (flags2, e)), case)
    # (ii) order of the optimisation lines in the results
    if cs % 3 == 0 and not bf:
        ex = en.run_lp(spec, opts, ctx.workdir, rng, inject=False, getters=('short',), text=text, argv=argv)
        ref = en.reference(spec, opts)
        cnt = {}
        findings, facts = en.judge_lp(ex, ref, counters=cnt)
        ctx.cnt('result_orders_judged', cnt.get('c16_order_judged', 0))
        ctx.cnt('result_prefix_located_from_trace', cnt.get('c16_prefix_located', 0))
        for f in findings:
            ctx.finding(f, dict(case, short=ex['short']))
        # extras stay with their criterion: the parser's list must be unchanged by solving
        if ex['solver'] is not None:
            ctx.cnt('orders_judged_after_solve')
            after = observed_order(ex['solver'])
            if after != want:
                ctx.finding(en.F('C16', 'extras_kept_after_solve', 'after solve() optimisation_options = %s, expected %s' % (after, want)), case)
            # a second solve performs and reports the same criteria, once
            if cs % 6 == 0 and ex['exc'] is None:
                try:
                    ex['solver'].solve()
                    txt = ex['solver'].get_results()
                    pr = op.parse_results(txt)
                    lines = [l for l in pr['info'] if l.startswith('optimisation:')]
                    exp_kw = [c[0] for c in rm.expected_order(crits)]
                    ctx.cnt('second_solve_reports_judged')
                    ok = (len(lines) <= len(exp_kw) and all(rm.line_matches(k, l) for k, l in zip(exp_kw, lines)) and
                          (pr['status'] != 'Optimal' or len(lines) == len(exp_kw)))
                    if not ok:
                        ctx.finding(en.F('C16', 'info_order_after_resolve', 'after a second solve() the results list %s, expected %s' % (lines, exp_kw)), case)
                except Exception as e:
                    ctx.cnt('second_solve_unobservable')
        if facts.get('status') and facts['status'] != 'Optimal' and crits:
            ctx.cov('non_optimal_prefix_runs')
    ctx.sample({'argv': case['argv'], 'parsed_order': got}, cap=3)


def replay(w, ctx):
    run_case(w['case']['cs'], ctx)


def floors(m, tier):
    out = []
    c, cov = m['counters'], m['cover']
    need = 2500 if tier == 'quick' else 60000
    if c.get('orders_judged', 0) < need:
        out.append('only %d parser orders judged' % c.get('orders_judged', 0))
    for k in ('invalid_range', 'invalid_duplicate', 'invalid_stab_without_twopl', 'flag_order_differs_from_position_order',
              'gaps_in_numbering', 'with_extras'):
        if cov.get(k, 0) < need // 20:
            out.append('class %s seen %d times' % (k, cov.get(k, 0)))
    if c.get('result_orders_judged', 0) < need // 5:
        out.append('only %d result-line orders judged' % c.get('result_orders_judged', 0))
    return out
