"""C02 - Optimal exactly when a feasible matching exists; never errors."""
from . import lpcommon as lc

ID = 'C02'
ANCHOR_FILES = ['solver/lp_solver.py', 'solver/model.py', 'solver/solver.py']
LEVEL = 'exploration'
RULE = ('random small specs biased to shapes hostile to objective bounds (lecturers > students, one lecturer with long '
        'lists, big targets, lower quotas making ~30% infeasible) x option sets with 1-5 criteria in every order, '
        'multipliers up to 100, cut-offs over the admissible range; expected status comes from exhaustive enumeration '
        'of valid (and stable) matchings by the reference model and is independent of the criteria; non-trivial = '
        'feasible instance with >=1 criterion, or infeasible instance; distinct = distinct (instance, option set)')
ASSUMPTIONS = ['reference enumeration in rv/refmodel.py', 'CBC decides the pin-probe programs correctly']
PROFILE = {'name': 'c02',
           'spec': {'shapes': ['dense', 'lec_gt_students', 'lec_gt_students', 'one_lecturer', 'one_lecturer',
                               'big_targets', 'big_targets', 'lowerq', 'lowerq', 'long_lists', 'zero_caps',
                               'tight_lecturer', 'all_tied']},
           'opts': {'ncrit_choices': [0, 1, 1, 2, 2, 2, 3, 3, 4, 5]}, 'medium_rate': 0.1, 'shipped_rate': 0.02, 'large_rate': 0.04}


def plan(tier):
    return {'cases_per_shard': 450 if tier == 'quick' else 9000,
            'time_cap_s': 90 if tier == 'quick' else 560}


BOUNDS = {'name': 'c02bounds', 'spec': {'shapes': ['one_lecturer', 'one_lecturer', 'lec_gt_students', 'big_targets'], 'max_s': 6, 'min_s': 2,
                                        'max_p': 3, 'max_l': 2, 'allow_empty_lists': False},
          'opts': {'twopl': True, 'stab': False}, 'bounds_stress': True, 'medium_rate': 0, 'shipped_rate': 0, 'large_rate': 0}


def run_case(cs, ctx):
    quick = ctx.tier == 'quick'
    prof = PROFILE
    if cs % 7 == 3:
        # few lecturers, many students, everybody forced in (maxsize first), then ONE criterion whose objective
        # variable needs a correct upper bound (lecturer-side weights, load deviations)
        prof = BOUNDS
        ctx.cov('objective_bound_stress_cases')
    r = lc.lp_case(cs, ctx, prof, probe_rate=0.08 if quick else 0.3, probe_cap=32 if quick else 128)
    f = r['facts']
    if f.get('enumerable'):
        nf = f.get('n_feasible')
        if nf == 0:
            ctx.nontrivial(lc.case_key(r['spec'], r['opts']))
            ctx.cov('infeasible_instances')
        elif r['opts']['crits']:
            ctx.nontrivial(lc.case_key(r['spec'], r['opts']))
            ctx.cov('feasible_with_criteria')
        for c in r['opts']['crits']:
            ctx.cov('crit_' + c[0])
        ctx.cov('ncrit_%d' % len(r['opts']['crits']))
    ctx.sample(lc.brief(r))


KF1_SPEC = {'na': 2, 'ns': 3, 'np': 3, 'nl': 3, 'st': [[[1], [2], [3]], [[2], [1], [3]], [[3], [1], [2]]],
            'plq': [0, 0, 0], 'puq': [1, 1, 1], 'plec': [1, 2, 3], 'llq': [0, 0, 0], 'lt': [1, 1, 1], 'luq': [1, 1, 1],
            'lec': [[[1], [2], [3]], [[2], [1], [3]], [[3], [2], [1]]], 'shape': 'known_finding_probe'}
KF1_OPTS = {'twopl': True, 'pc': False, 'stab': False, 'crits': [['maxsize', 1, []], ['mincost', 2, [1000000007]]]}


def known_finding_probe(ctx):
    """KF1 (known_findings.json): re-run the listed witness; while it still fails the
    runner prints the KNOWN-FINDING line, once it is repaired the line disappears."""
    import random
    from .. import engine as en
    ref = en.reference(KF1_SPEC, KF1_OPTS)
    ex = en.run_lp(KF1_SPEC, KF1_OPTS, ctx.workdir, random.Random(0), inject=False, noise=False)
    findings, _ = en.judge_lp(ex, ref, counters={})
    ctx.cnt('known_finding_probes')
    case = {'cs': 'KF1', 'profile': 'known_finding_probe', 'spec': KF1_SPEC, 'opts': KF1_OPTS}
    case.update(en.light(ex))
    for f in findings:
        ctx.finding(f, case)


def run_shard(ctx):
    from ..worker import generic_loop
    import sys
    if ctx.shard == 0:
        known_finding_probe(ctx)
    generic_loop(sys.modules[__name__], ctx)


def replay(w, ctx):
    if w['case'].get('cs') == 'KF1':
        return known_finding_probe(ctx)
    run_case(w['case']['cs'], ctx)


def floors(m, tier):
    c = m['counters']
    need = 1800 if tier == 'quick' else 10000
    out = []
    if c.get('c02_status_judged', 0) + 0 < need:
        out.append('only %d statuses judged against the reference (< %d)' % (c.get('c02_status_judged', 0), need))
    if m['cover'].get('infeasible_instances', 0) < need // 25:
        out.append('only %d infeasible instances' % m['cover'].get('infeasible_instances', 0))
    return out
