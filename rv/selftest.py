"""./vcheck selftest [--only name-substring] [--prop Cxx] [--seeded] [--tests] [--jobs N]

Trust in the monitors: apply one deliberate break (rv/mutants.py, or a kept
sub-agent change under /verif/seeded/<id>/patch.diff) to a scratch copy of the
repository, run the owning property's quick check with VERIF_REPO=<copy> and
expect exit 1 (VIOLATION).  The copy lives under $TMPDIR, outside /repo and
/verif, and is removed right after use.  Nothing here touches /repo.
"""
import glob
import json
import os
import shutil
import subprocess
import sys
import tempfile
import time

VERIF = os.path.dirname(os.path.dirname(os.path.abspath(__file__)))
PY = '/venv/bin/python'


def scratch_copy(src):
    d = tempfile.mkdtemp(prefix='rv_selftest_')
    dst = os.path.join(d, 'repo')
    shutil.copytree(src, dst, ignore=shutil.ignore_patterns('.git', '__pycache__', '.benchmarks', 'Evaluations', '*.egg-info'))
    return d, dst


def run_tests(repo):
    env = dict(os.environ, PYTHONPATH=repo, PYTHONDONTWRITEBYTECODE='1')
    env.pop('MATCHINGPROBLEMS_VERIF', None)
    r = subprocess.run([PY, '-m', 'pytest', '-q', '-p', 'no:cacheprovider', '-x'], cwd=repo, env=env,
                       capture_output=True, text=True, timeout=600)
    return r.returncode == 0, (r.stdout.strip().split('\n') or [''])[-1]


def run_check(prop, repo, seed=0, work_tag=''):
    env = dict(os.environ, VERIF_REPO=repo, VERIF_SEED=os.environ.get('VERIF_SEED', str(seed)))
    t0 = time.time()
    r = subprocess.run([PY, '-B', '-m', 'rv.runner', prop, '--tier', 'quick'], cwd=VERIF, env=env,
                       capture_output=True, text=True, timeout=1800)
    first = [l for l in r.stdout.split('\n') if l.startswith('VIOLATION')]
    detail = [l for l in r.stdout.split('\n') if l.startswith('  [')]
    return r.returncode, len(first), (detail[0].strip()[:220] if detail else ''), time.time() - t0


def main(argv):
    from .mutants import MUTANTS
    only = argv[argv.index('--only') + 1] if '--only' in argv else None
    prop_f = argv[argv.index('--prop') + 1].upper() if '--prop' in argv else None
    with_tests = '--tests' in argv
    src = os.path.abspath(os.environ.get('VERIF_REPO', '/repo'))
    items = []
    if '--seeded' in argv:
        for meta in sorted(glob.glob(os.path.join(VERIF, 'seeded', '*', 'meta.json'))):
            m = json.load(open(meta))
            items.append(('seeded/' + os.path.basename(os.path.dirname(meta)), m['property'], None,
                          os.path.join(os.path.dirname(meta), 'patch.diff'), m.get('also_detected_by', [])))
    else:
        for name, prop, f, old, new in MUTANTS:
            items.append((name, prop, (f, old, new), None, []))
    results = []
    for name, prop, edit, patch, _ in items:
        if only and only not in name:
            continue
        if prop_f and prop != prop_f:
            continue
        d, repo = scratch_copy(src)
        try:
            if edit:
                f, old, new = edit
                p = os.path.join(repo, f)
                s = open(p).read()
                if s.count(old) != 1:
                    results.append((name, prop, 'MUTANT-DOES-NOT-APPLY (%d matches)' % s.count(old), ''))
                    print('%-46s %s  does not apply (%d matches)' % (name, prop, s.count(old)))
                    continue
                open(p, 'w').write(s.replace(old, new))
            else:
                r = subprocess.run(['git', 'apply', '--unsafe-paths', '--directory', repo, patch], capture_output=True, text=True, cwd='/')
                if r.returncode != 0:
                    r = subprocess.run(['patch', '-p1', '-s', '-d', repo, '-i', patch], capture_output=True, text=True)
                if r.returncode != 0:
                    results.append((name, prop, 'PATCH-DOES-NOT-APPLY', r.stderr[:200]))
                    print('%-46s %s  patch does not apply: %s' % (name, prop, r.stderr[:200]))
                    continue
            tests = ''
            if with_tests:
                ok, line = run_tests(repo)
                tests = 'tests:%s' % ('pass' if ok else 'FAIL ' + line)
            code, nviol, detail, secs = run_check(prop, repo)
            verdict = 'caught' if code == 1 else ('INCONCLUSIVE' if code == 2 else 'MISSED')
            results.append((name, prop, verdict, detail))
            print('%-46s %s  %-12s %4.0fs %s %s' % (name, prop, verdict, secs, tests, detail))
            sys.stdout.flush()
        finally:
            shutil.rmtree(d, ignore_errors=True)
    missed = [r for r in results if r[2] != 'caught']
    print('selftest: %d/%d caught' % (len(results) - len(missed), len(results)))
    out = os.path.join(VERIF, 'selftest_results.json' if '--seeded' not in argv else 'selftest_seeded_results.json')
    if not only and not prop_f:
        json.dump([{'name': a, 'property': b, 'verdict': c, 'first_finding': d} for a, b, c, d in results], open(out, 'w'), indent=1)
    return 0 if not missed else 1
