"""C17 - popularity skew is linear with the requested ratio."""
import random

from . import lpcommon as lc

ID = 'C17'
ANCHOR_FILES = ['generator/generator_shared.py']
LEVEL = 'exploration'
NEEDS_DEPS = True
EVAL_COUNTER = 'calls'
MAX_SHARDS = 8
RULE = ('the real create_linear_distribution is called under an icontract postcondition (length n, all weights > 0, |sum-1| <= '
        '1e-9, equal consecutive differences and last = s * first, both to relative 1e-9, n=1 -> [1.0]) for n in 1..200 '
        '(thorough: 1..1500 plus 10^4 and 10^5) x a grid of 64 skews from 0.001 to 10^6 including exactly 1, values < 1 and '
        'non-representable decimals, plus random (n, s); a draw-site tap on numpy.random.choice checks the vector actually used for drawing in '
        'sequences of Generator runs within one process (same n, different skews and types); the postcondition also passively '
        'watches every call made by the generator workloads of C08/C09/C12; non-trivial = distinct (n, s) with n >= 2; evaluations = calls')
ASSUMPTIONS = ['relative tolerance 1e-9 for floating point']
SKEWS = [0.001, 0.01, 0.05, 0.1, 0.2, 0.25, 0.3, 1 / 3, 0.5, 0.7, 0.9, 0.99, 0.999999, 1, 1.0000001, 1.01, 1.1, 1.25, 1.5,
         1.7, 2, 2.5, 3, 3.3, 4, 5, 6, 7, 7.7, 8, 9, 10, 11, 12.5, 15, 20, 25, 30, 33.3, 40, 50, 64, 75, 99.9, 100,
         128, 150, 200, 250, 333, 500, 750, 1000, 1e4, 12345.678, 1e5, 1e6, 0.15, 0.35, 0.45, 0.6, 0.8, 2.2, 4.4]


def plan(tier):
    return {'cases_per_shard': 1, 'time_cap_s': 60 if tier == 'quick' else 560}


def run_shard(ctx):
    lc.contracts_on(ctx)
    import matchingproblems.generator.generator_shared as gs
    fn = gs.create_linear_distribution
    ns = list(range(1, 201)) if ctx.tier == 'quick' else list(range(1, 1501)) + [10 ** 4, 10 ** 5]
    work = [(n, s) for n in ns for s in SKEWS]
    rng = random.Random(ctx.seed * 1000 + 17)
    for _ in range(4000 if ctx.tier == 'quick' else 40000):
        work.append((rng.randint(1, 400), rng.choice([rng.uniform(0.001, 1), rng.uniform(1, 50), 10 ** rng.uniform(-3, 5)])))
    for i, (n, s) in enumerate(work):
        if i % ctx.nshards != ctx.shard:
            continue
        case = {'n': n, 'skew': s}
        ctx.cnt('calls')
        try:
            w = fn(n, s)
        except Exception as e:
            ctx.finding({'prop': 'C17', 'monitor': 'returns', 'msg': 'create_linear_distribution(%r, %r) raised %s: %s' % (
                n, s, type(e).__name__, e)}, case)
            continue
        if n >= 2:
            ctx.nontrivial('%d/%r' % (n, s))
        else:
            ctx.cov('n_equals_1')
        ctx.cov('skew_lt_1' if s < 1 else 'skew_eq_1' if s == 1 else 'skew_gt_1')
        if i % 997 == 0:
            ctx.sample({'n': n, 'skew': s, 'weights_head': [float(x) for x in w[:4]], 'weights_last': float(w[-1])}, cap=3)
        lc.harvest_contracts(ctx, case)
    lc.harvest_contracts(ctx, {})
    draw_site_workload(ctx)


def weights_problem(w, n, s):
    if len(w) != n:
        return 'length %d != n=%d' % (len(w), n)
    if any(not (x > 0) for x in w):
        return 'non-positive weight'
    if abs(sum(w) - 1.0) > 1e-9:
        return 'weights sum to %r' % sum(w)
    if n >= 2:
        d = [w[i + 1] - w[i] for i in range(n - 1)]
        if max(d) - min(d) > 1e-9 * max(w):
            return 'not an arithmetic progression'
        if abs(w[-1] - s * w[0]) > 1e-9 * max(w[-1], s * w[0]):
            return 'last/first = %r, requested skew %r' % (w[-1] / w[0], s)
    return None


def draw_site_workload(ctx):
    """Observability at the draw site: sequences of Generator runs in ONE process
    (same number of rankable agents, different skews and problem types); the
    probability vector handed to numpy.random.choice for every preference list
    must be the progression for the skew requested in THAT run."""
    from .. import genengine as ge
    from ..taps import CHOICE
    CHOICE.install()
    rng = random.Random(ctx.seed * 7919 + ctx.shard)
    nseq = 25 if ctx.tier == 'quick' else 400
    for q in range(nseq):
        n2 = rng.randint(1, 9)
        for step in range(3):
            mp = rng.choice(['ha', 'sm', 'hr', 'spa'])
            v = ge.legal_vector(rng, mp=mp, max_n1=6, max_n2=9, max_n3=4)
            if mp == 'sm':
                v['n1'] = n2
            else:
                v['n2'] = n2
                v['uq'] = n2 + rng.randint(0, 3)
                v.pop('lq', None)
            v['pmin'] = rng.randint(1, n2)
            v['pmax'] = rng.randint(v['pmin'], n2)
            v['skew'] = rng.choice([None, 0.2, 0.5, 1.0, 2.0, 5.0, 50.0, 3.3, 0.0001, 0.003, 5000.0, 100000.0])
            v['numinst'] = 1
            if rng.random() < 0.25:
                txt, val = rng.choice([('1e3', 1000.0), ('2.5e1', 25.0), ('5e-2', 0.05), ('1E2', 100.0), ('1e-05', 1e-05), ('3.0e0', 3.0), ('1000000000000000000', 1e18), ('9000000000000000000', 9e18), ('7', 7.0)])
                v['skew'], v['skew_text'] = val, txt
                ctx.cov('skew_in_exponent_notation')
            outdir = ge.fresh_outdir(ctx.workdir, 'c17')
            argv = ge.to_argv(v, outdir, rng)
            CHOICE.start()
            res = ge.run_generator(argv, rng.randint(0, 10 ** 6))
            recs = CHOICE.stop()
            ctx.cnt('generator_runs_with_draw_site_tap')
            failed = res['exit'] is not None or res['exc'] is not None
            if failed:
                # the vectors recorded before the failure are still judged: the tap sees them on the way in
                ctx.cnt('draw_site_runs_in_which_the_generator_failed')
            s = 1.0 if v['skew'] is None else v['skew']
            case = {'draw_site': True, 'sequence': q, 'step': step, 'argv': [a if a != outdir else '<outdir>' for a in argv]}
            for w in recs:
                ctx.cnt('draw_site_vectors_judged')
                bad = weights_problem(w, n2, s)
                if bad:
                    ctx.finding({'prop': 'C17', 'monitor': 'draw_site_weights', 'msg': 'run %d of a sequence in one process (%s, %d rankable '
                                 'agents, skew %r): the weights handed to the draw are wrong: %s (weights %s)' % (
                                     step + 1, mp, n2, s, bad, [round(x, 5) for x in w[:6]])}, case)
                    break
            if step > 0 and not failed:
                ctx.nontrivial('seq/%d/%d/%d/%r' % (ctx.shard, q, step, s))
    lc.harvest_contracts(ctx, {})


def replay(w, ctx):
    lc.contracts_on(ctx)
    import matchingproblems.generator.generator_shared as gs
    c = w['case']
    if c.get('draw_site'):
        return draw_site_workload(ctx)
    gs.create_linear_distribution(c['n'], c['skew'])
    lc.harvest_contracts(ctx, c)


def coverage_extra(m, tier):
    n = m['counters'].get('draw_site_vectors_judged', 0)
    return {'auxiliary_monitors': {'draw_site_tap_on_numpy_random_choice': 'absent (0 vectors seen)' if n == 0 else '%d weight vectors judged' % n}}


def floors(m, tier):
    out = []
    c = m['counters']
    need = 15000 if tier == 'quick' else 130000
    if c.get('contract_evals_create_linear_distribution', 0) < need:
        out.append('contract on create_linear_distribution evaluated only %d times' % c.get('contract_evals_create_linear_distribution', 0))
    # the draw-site tap is an auxiliary monitor (it depends on HOW lists are drawn): when an implementation does not
    # hand a probability vector to numpy.random.choice it is reported as absent in the evidence, not as inconclusive
    for k in ('n_equals_1', 'skew_lt_1', 'skew_eq_1', 'skew_gt_1'):
        if m['cover'].get(k, 0) == 0:
            out.append('class %s never observed' % k)
    return out
