"""Worker process: runs one shard of one property's workload against the real
code and writes a JSON result.  Invoked by rv.runner with subprocess.run."""
import argparse
import hashlib
import importlib
import json
import os
import shutil
import signal
import sys
import tempfile
import time
import traceback


def case_seed(seed, shard, i):
    h = hashlib.sha256(('%d/%d/%d' % (seed, shard, i)).encode()).hexdigest()
    return int(h[:15], 16)


class Ctx:
    def __init__(self, prop, tier, seed, shard, nshards, workdir):
        self.prop, self.tier, self.seed = prop, tier, seed
        self.shard, self.nshards, self.workdir = shard, nshards, workdir
        self.counters = {}
        self.cover = {}
        self.samples = []
        self.distinct = set()
        self.violations = []
        self.foreign = {}
        self.notes = []
        self.t0 = time.time()

    def cnt(self, k, n=1):
        self.counters[k] = self.counters.get(k, 0) + n

    def cov(self, k, n=1):
        self.cover[k] = self.cover.get(k, 0) + n

    def sample(self, s, cap=3):
        if len(self.samples) < cap:
            self.samples.append(s)

    def nontrivial(self, key):
        self.distinct.add(key)

    def finding(self, f, case):
        """Record a finding; only the property's own monitors count."""
        if f['prop'] != self.prop:
            k = '%s/%s' % (f['prop'], f['monitor'])
            self.foreign[k] = self.foreign.get(k, 0) + 1
            return
        if len(self.violations) < 40:
            w = dict(f)
            w['case'] = case
            w['env'] = dict({k: os.environ.get(k) for k in ('TZ', 'LC_ALL', 'LANG', 'PYTHONHASHSEED')},
                            optimize=int(sys.flags.optimize), shard_class=self.shard % 4)
            self.violations.append(w)
        self.cnt('violations_seen')

    def elapsed(self):
        return time.time() - self.t0

    def result(self):
        return {'counters': self.counters, 'cover': self.cover, 'samples': self.samples,
                'distinct': sorted(self.distinct), 'violations': self.violations,
                'foreign': self.foreign, 'notes': self.notes, 'wall_s': self.elapsed()}


class CaseTimeout(BaseException):
    pass


def _on_alarm(sig, frm):
    raise CaseTimeout()


def generic_loop(mod, ctx):
    signal.signal(signal.SIGALRM, _on_alarm)
    plan = mod.plan(ctx.tier)
    n = plan['cases_per_shard']
    cap = plan['time_cap_s']
    for i in range(n):
        if ctx.elapsed() > cap:
            ctx.cnt('stopped_by_time_cap')
            break
        cs = case_seed(ctx.seed, ctx.shard, i)
        try:
            signal.alarm(plan.get('case_watchdog_s', 180))
            try:
                mod.run_case(cs, ctx)
            finally:
                signal.alarm(0)
        except CaseTimeout:
            ctx.cnt('case_watchdog_fired')
            if len(ctx.notes) < 3:
                ctx.notes.append({'case_watchdog': cs})
        except Exception as e:
            # a monitor that cannot cope with what the code did must not hide the
            # findings already recorded; many such errors make the run inconclusive
            ctx.cnt('harness_errors')
            if len(ctx.notes) < 3:
                ctx.notes.append({'harness_error': ''.join(traceback.format_exception(type(e), e, e.__traceback__))[-1500:], 'cs': cs})
        ctx.cnt('cases')


def start_reach(repo):
    """sys.monitoring reach recorder: which functions of the repository were
    entered in this worker (PY_START, disabled per code object after the first
    hit, so the cost is negligible)."""
    mon = getattr(sys, 'monitoring', None)
    if mon is None:
        return None
    seen = set()
    prefix = os.path.join(repo, 'matchingproblems') + os.sep
    try:
        mon.use_tool_id(4, 'rv_reach')

        def cb(code, offset):
            f = code.co_filename
            if f.startswith(prefix):
                seen.add(f[len(prefix):] + ':' + code.co_qualname)
            return mon.DISABLE
        mon.register_callback(4, mon.events.PY_START, cb)
        mon.set_events(4, mon.events.PY_START)
    except Exception:
        return None
    return seen


def main():
    ap = argparse.ArgumentParser()
    ap.add_argument('prop')
    ap.add_argument('--tier', default='quick')
    ap.add_argument('--seed', type=int, default=0)
    ap.add_argument('--shard', type=int, default=0)
    ap.add_argument('--nshards', type=int, default=1)
    ap.add_argument('--out', required=True)
    ap.add_argument('--replay', default=None)
    a = ap.parse_args()
    os.environ['MATCHINGPROBLEMS_VERIF'] = '1'
    workdir = tempfile.mkdtemp(prefix='rv_%s_' % a.prop)
    # every temporary file of this worker (PuLP's .mps/.sol files included, which PuLP leaves behind when CBC
    # fails) lives in its own directory, removed at the end
    scratch = os.path.join(workdir, 'tmp')
    other_device = None
    if a.shard % 4 == 1 and not a.replay or os.environ.get('RV_TMPDIR_OTHER_DEVICE') == '1':
        # for these workers the default temporary directory and the instance / output directories are on
        # different file systems (rename() across them fails with EXDEV), as with a tmpfs /tmp
        try:
            if os.path.isdir('/dev/shm') and os.stat('/dev/shm').st_dev != os.stat(workdir).st_dev:
                other_device = tempfile.mkdtemp(prefix='rv_tmp_', dir='/dev/shm')
                scratch = other_device
        except OSError:
            other_device = None
    os.makedirs(scratch, exist_ok=True)
    os.environ['TMPDIR'] = scratch
    tempfile.tempdir = scratch
    # a private HOME: code under test that expands '~' or $HOME must not reach the real home directory
    os.makedirs(os.path.join(workdir, 'home'), exist_ok=True)
    os.environ['HOME'] = os.path.join(workdir, 'home')
    res = {'crash': None}
    try:
        # the package is imported while the process is in the worker's scratch directory (where instance files
        # called inst.txt, v0.txt, ... come and go): a path resolved against the import-time directory finds them
        os.chdir(workdir)
        from rv import loader
        reach = start_reach(loader.REPO)
        loader.load()
        if a.shard % 4 == 1 or os.environ.get('RV_WARNINGS_AS_ERRORS') == '1':
            # these workers run as under `-W error::Warning:matchingproblems...`: a warning raised from the
            # package's own modules is an exception (warnings of PuLP / numpy keep their default handling)
            import warnings
            warnings.filterwarnings('error', module=r'matchingproblems(\..*)?$')
        mod = importlib.import_module('rv.props.' + a.prop.lower())
        ctx = Ctx(a.prop, a.tier, a.seed, a.shard, a.nshards, workdir)
        if a.replay:
            w = json.load(open(a.replay))
            mod.replay(w, ctx)
        elif hasattr(mod, 'run_shard'):
            try:
                mod.run_shard(ctx)
            except Exception as e:
                # keep what was observed so far (findings included); the runner turns this into
                # 'inconclusive' unless a violation was already recorded
                ctx.cnt('harness_errors')
                ctx.cnt('shard_aborted_by_harness_error')
                ctx.notes.append({'harness_error': ''.join(traceback.format_exception(type(e), e, e.__traceback__))[-1500:]})
        else:
            generic_loop(mod, ctx)
        res.update(ctx.result())
        res['reach'] = sorted(reach) if reach is not None else None
        import time as _t
        try:
            from rv import engine as _en, genengine as _ge
            for k, v in _en.PATH_SPELLINGS.items():
                if k != 'plain':
                    res['counters']['instance_paths_' + k] = v
            for k, v in _ge.OUTDIR_SPELLINGS.items():
                if k != 'plain':
                    res['counters']['output_directories_' + k] = v
        except Exception:
            pass
        res['counters']['workers_with_tmpdir_on_another_file_system'] = 1 if other_device else 0
        res['counters']['workers_with_package_warnings_as_errors'] = 1 if (a.shard % 4 == 1 or os.environ.get('RV_WARNINGS_AS_ERRORS') == '1') else 0
        res['counters']['workers_with_asserts_compiled_out'] = 0 if __debug__ else 1
        res['counters']['workers_east_or_west_of_utc'] = 1 if _t.timezone != 0 else 0
        res['counters']['workers_with_unavailable_locale'] = 1 if os.environ.get('LC_ALL', '').startswith('de_DE') else 0
    except BaseException as e:   # a crashed worker is inconclusive, never green
        res['crash'] = ''.join(traceback.format_exception(type(e), e, e.__traceback__))[-4000:]
    finally:
        shutil.rmtree(workdir, ignore_errors=True)
        if other_device:
            shutil.rmtree(other_device, ignore_errors=True)
    with open(a.out, 'w') as f:
        json.dump(res, f, default=str)
    return 0


if __name__ == '__main__':
    sys.exit(main())
