"""C01 - the reported matching is a valid matching of the input instance."""
from . import lpcommon as lc
from .. import refmodel as rm

ID = 'C01'
ANCHOR_FILES = ['solver/lp_solver.py', 'solver/model.py', 'solver/fileIO.py', 'solver/solver.py']
LEVEL = 'exploration'
RULE = ('random small HA/SM/HR/SPA specs (12 hostile shapes) rendered with whitespace noise x random option sets '
        '(-twopl/-pc/-stab, 0-4 criteria with admissible arguments, flags permuted); every underlying solve is '
        'followed by tie-break injection (an alternative optimal point verified with PuLP constraint.valid()); '
        'a case is non-trivial when the run is Optimal and the instance has >=2 valid matchings and >=1 acceptable '
        'but invalid assignment; distinct = distinct (instance, option set)')
ASSUMPTIONS = ['CBC decides the small pin-probe programs correctly', 'reference model in rv/refmodel.py encodes validity as stated in C01']
PROFILE = {'name': 'c01', 'spec': {}, 'opts': {}, 'medium_rate': 0.1, 'shipped_rate': 0.02, 'large_rate': 0.04}


def plan(tier):
    return {'cases_per_shard': 400 if tier == 'quick' else 9000,
            'time_cap_s': 90 if tier == 'quick' else 560}


def run_case(cs, ctx):
    quick = ctx.tier == 'quick'
    r = lc.lp_case(cs, ctx, PROFILE, probe_rate=0.12 if quick else 0.35, probe_cap=48 if quick else 160)
    f, ref = r['facts'], r['ref']
    if f.get('status') == 'Optimal' and ref['enumerable']:
        inst = ref['inst']
        nval = len(rm.enumerate_valid(inst, r['opts']['pc']))
        if nval >= 2 and inst.n_acceptable_assignments() > nval:
            ctx.nontrivial(lc.case_key(r['spec'], r['opts']))
        ctx.cov('na%d_%s' % (r['spec']['na'], 'two' if r['opts']['twopl'] else 'one'))
        ctx.cov('shape_' + r['spec']['shape'])
        if r['opts']['pc']:
            ctx.cov('with_pc')
        if r['opts']['stab']:
            ctx.cov('with_stab')
    ctx.sample(lc.brief(r))


KF2_BIG = 2 ** 53 + 1
KF2_SPEC = {'na': 3, 'ns': 2, 'np': 2, 'nl': 1, 'st': [[[1], [2]], [[2]]], 'plq': [2, 0], 'puq': [KF2_BIG, 1], 'plec': [1, 1],
            'llq': [0], 'lt': [KF2_BIG], 'luq': [KF2_BIG], 'lec': [[[1], [2]]], 'shape': 'known_finding_probe'}
KF2_OPTS = {'twopl': False, 'pc': True, 'stab': False, 'crits': [['maxsize', 1, []]]}


def known_finding_probe(ctx):
    """KF2 (known_findings.json): re-run the listed witness; while it still fails the runner prints the
    KNOWN-FINDING line, once it is repaired the line disappears."""
    import random
    from .. import engine as en
    from .. import outparse as op
    ex = en.run_lp(KF2_SPEC, KF2_OPTS, ctx.workdir, random.Random(0), inject=False, noise=False, second_side=False)
    ctx.cnt('known_finding_probes')
    case = {'cs': 'KF2', 'profile': 'known_finding_probe', 'spec': KF2_SPEC, 'opts': KF2_OPTS}
    case.update(en.light(ex))
    # judged directly (what the user sees), NOT through judge_lp: the trusted-base monitor classes this execution
    # as "the back end returned a point that violates the problem it was given" and would exclude it - here the
    # problem it was given has coefficients beyond what doubles represent, which is the program's doing
    try:
        res = op.parse_results(ex['short'])
        m = res['stats'].get('matching')
        if res.get('status') == 'Optimal' and m is not None:
            why = rm.validity(rm.Inst(KF2_SPEC, False), m, True)
            if why is not None:
                ctx.finding(en.F('C01', 'valid_matching', 'printed matching %s is not valid: %s' % (list(m), why)), case)
    except Exception:
        pass


def run_shard(ctx):
    from ..worker import generic_loop
    import sys
    if ctx.shard == 0:
        known_finding_probe(ctx)
    generic_loop(sys.modules[__name__], ctx)


def replay(w, ctx):
    if w['case'].get('cs') == 'KF2':
        return known_finding_probe(ctx)
    run_case(w['case']['cs'], ctx)


def floors(m, tier):
    c = m['counters']
    need = 1500 if tier == 'quick' else 9000
    out = []
    if c.get('c01_matchings_judged', 0) < need:
        out.append('only %d printed matchings judged (< %d)' % (c.get('c01_matchings_judged', 0), need))
    if len(m['distinct']) < need // 3:
        out.append('only %d non-trivial cases (< %d)' % (len(m['distinct']), need // 3))
    if c.get('probe_points', 0) < (300 if tier == 'quick' else 5000):
        out.append('pin probe saw only %d points' % c.get('probe_points', 0))
    return out
