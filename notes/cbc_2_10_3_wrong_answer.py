"""Standalone witness (no repository code): CBC 2.10.3 as bundled with PuLP 2.9.0 returns, with status
Optimal, a point that violates two constraints of this 10-variable model (student 1 assigned twice);
with `preprocess off` it returns the right optimum.  Found by the LP tap on 2026-10-01 (C07, seed 3).
Run: /venv/bin/python notes/cbc_2_10_3_wrong_answer.py"""
import pulp, sys
x={ (i,j): pulp.LpVariable('(%d,%d)'%(i,j), cat='Binary') for i in (1,2) for j in (1,2,3)}
om=pulp.LpVariable('obj_maxsize',0,2,cat='Integer'); g1=pulp.LpVariable('obj_greedy_rank_1',0,2,cat='Integer'); g2=pulp.LpVariable('obj_greedy_rank_2',0,2,cat='Integer'); g3=pulp.LpVariable('obj_greedy_rank_3',0,2,cat='Integer')
def build():
    p=pulp.LpProblem('t',pulp.LpMaximize)
    p+= g3
    p+= pulp.lpSum(x.values())-om==0
    p+= om>=2
    p+= x[1,1]+x[2,1]+x[2,2]+x[2,3]-g1==0
    p+= g1>=2
    p+= x[1,3]-g2==0
    p+= g2>=0
    p+= x[1,2]-g3==0
    for j in (1,2,3):
        lq={1:1,2:0,3:0}[j]; uq={1:1,2:2,3:1}[j]
        p+= x[1,j]+x[2,j]>=lq; p+= x[1,j]+x[2,j]<=uq
        p+= x[1,j]+x[2,j]>=lq; p+= x[1,j]+x[2,j]<=uq
    p+= x[1,1]+x[1,2]+x[1,3]<=1
    p+= x[2,1]+x[2,2]+x[2,3]<=1
    return p
for opts in ([], ['presolve off'], ['preprocess off'], ['presolve off','preprocess off']):
    p=build(); p.solve(pulp.PULP_CBC_CMD(msg=False, options=opts))
    print(opts, p.status, pulp.value(p.objective), {k:v.varValue for k,v in x.items()}, [n for n,c in p.constraints.items() if not c.valid(1e-6)])
