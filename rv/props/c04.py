"""C04 - several criteria compose lexicographically in position order."""
import random

from . import lpcommon as lc
from .. import engine as en
from .. import refmodel as rm
from .. import spec as sp

ID = 'C04'
ANCHOR_FILES = ['solver/lp_solver.py', 'solver/options_parser.py']
LEVEL = 'exploration'
RULE = ('2-4 criteria at distinct positions in 1..9 (gaps, flags in random permutation) on random small specs chosen so that '
        'criteria conflict; monitors: (i) value vector of the printed matching = reference lexicographic optimum, (ii) trace '
        'monitor at the LP tap: the solution after every solve lies in the reference optimal set of the elementary steps so '
        'far, under tie-break injection, (iii) pin probe of the final integer program = reference final optimal set, (iv) '
        'metamorphic: a second run with the flags permuted gives the same value vector; non-trivial = a later criterion\'s '
        'free optimum differs from its optimum within the set optimal for the earlier ones; distinct = distinct '
        '(instance, option set)')
ASSUMPTIONS = ['reference measures in rv/refmodel.py', 'CBC decides the pin-probe programs correctly']
PROFILE = {'name': 'c04', 'spec': {'shapes': ['dense', 'dense', 'long_lists', 'lowerq', 'tight_lecturer', 'big_targets',
                                              'one_lecturer', 'no_ties', 'all_tied', 'lec_gt_students']},
           'opts': {'ncrit_choices': [2, 2, 2, 3, 3, 4]}, 'medium_rate': 0.15, 'shipped_rate': 0.02}


def plan(tier):
    return {'cases_per_shard': 330 if tier == 'quick' else 6500,
            'time_cap_s': 90 if tier == 'quick' else 560}


def run_case(cs, ctx):
    quick = ctx.tier == 'quick'
    prof = PROFILE
    if cs % 9 == 4:
        prof = dict(PROFILE, name='c04big', big_first=True)     # first optimum >= 10000, then further criteria
        ctx.cov('first_criterion_with_value_above_10000')
    r = lc.lp_case(cs, ctx, prof, probe_rate=0.1 if quick else 0.3, probe_cap=48 if quick else 160)
    f = r['facts']
    if f.get('status') == 'Optimal' and f.get('enumerable'):
        if f.get('conflict'):
            ctx.nontrivial(lc.case_key(r['spec'], r['opts']))
            ctx.cov('conflicting_sequences')
        ctx.cov('ncrit_%d' % len(r['opts']['crits']))
        flag_order = [c[0] for c in r['opts']['crits']]
        argv = r['case']['argv']
        seen = [sp.crit_of_flag(a) for a in argv if sp.crit_of_flag(a)]
        if seen != [c[0] for c in sp.ordered_crits(r['opts'])]:
            ctx.cov('flag_order_differs_from_position_order')
        # (iv) metamorphic: permute the flags, same positions
        if r['rng'].random() < 0.35 and not r['findings']:
            ex2 = en.run_lp(r['spec'], r['opts'], ctx.workdir, random.Random(cs ^ 0xabc), inject=True,
                            getters=('short',))
            ctx.cnt('metamorphic_reruns')
            if ex2['exc'] is None and ex2['short']:
                try:
                    from .. import outparse as op
                    m2 = op.parse_results(ex2['short'])['stats'].get('matching')
                    m1 = op.parse_results(r['ex']['short'])['stats'].get('matching')
                except Exception:
                    m1 = m2 = None
                inst = r['ref']['inst']
                if m1 is not None and m2 is not None and rm.validity(inst, m2, r['opts']['pc']) is None:
                    v1 = rm.value_vector(m1, r['ref']['steps'])
                    v2 = rm.value_vector(m2, r['ref']['steps'])
                    if v1 != v2:
                        ctx.finding(en.F('C04', 'flag_permutation', 'flag order %s gives %s, flag order %s gives %s' % (
                            argv, v1, ex2['argv'], v2)), r['case'])
    ctx.sample(lc.brief(r), cap=2)


def replay(w, ctx):
    run_case(w['case']['cs'], ctx)


def floors(m, tier):
    out = []
    need = 200 if tier == 'quick' else 2500
    if len(m['distinct']) < need:
        out.append('only %d conflicting criteria sequences (< %d)' % (len(m['distinct']), need))
    if m['counters'].get('c04_trace_judged', 0) < need:
        out.append('trace monitor judged only %d runs' % m['counters'].get('c04_trace_judged', 0))
    if m['counters'].get('probe_points', 0) < (300 if tier == 'quick' else 4000):
        out.append('pin probe saw only %d points' % m['counters'].get('probe_points', 0))
    return out
